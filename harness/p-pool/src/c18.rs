//! C18 — A pooled Merkle-map cache never serves data from a superseded generation.
//!
//! Code under test: `/repo/internal/mithril-resource-pool/src/resource_pool.rs`, used the way the aggregator's prover
//! services use it (`compute_cache` = read discriminant, `set_discriminant(d+1)`, `clear`, `give_back_resource(new, d+1)`
//! × size; proof computation = `acquire_resource` … `give_back_resource_pool_item` or implicit give-back on drop).
//!
//! Resources are harness objects tagged with the generation they were built for and carrying a drop hook, so the
//! harness knows — independently of the pool — whether a returned resource was admitted (still alive, not held by
//! anybody) or rejected (dropped).
//!
//! * Layer 1 (`sequences`): model-based, sequential, on the real crate with the real `std::sync` primitives and a real
//!   1 ms acquire timeout. Model = FIFO queue of (id, generation) + current generation.
//! * Layer 2 (`schedules`): the same source file of the working tree compiled a second time (see `build.rs`) with
//!   `std::sync::{Mutex, Condvar}` replaced by [`shim`] (shuttle's schedule-controlled primitives). 2–4 threads run
//!   generated scripts; the interleaving is part of the generated case (a vector of scheduling choices consumed by
//!   [`ScriptSched`]), so a replay file reproduces the exact schedule and proptest shrinks towards few preemptions.
//!   Time is modelled as "timeouts are long": a blocked `wait_timeout` times out only when no other thread can make a
//!   step (a timer task that the scheduler runs only when it is the only runnable one). A waiter that is still blocked
//!   at such a point although the pool is not empty is a lost wake-up.
//!
//! Oracle (only what the statement says). Keys are `stale:<cause>:<symptom>`, `overfill:*`, `lost-wakeup`, `deadlock`:
//!   symptom served          an acquire that started after the refresh to generation G completed returned a resource of
//!                           an older generation
//!   symptom readmit         a give-back (item / drop / raw with the truthful old discriminant) that started after the
//!                           refresh to G completed re-admitted a resource of an older generation
//!   symptom in-pool-at-end  after all threads finished, the pool holds a resource that is not of the last generation
//!   cause                   the first wrong event in the history of that resource (attribution only, never a verdict):
//!                           admitted by `give_back_resource_pool_item` although the item's discriminant was older than
//!                           the pool's / handed out under a discriminant newer than its generation / admitted by
//!                           drop or raw give-back under an older discriminant / unattributed
//!   overfill:*              `count()` > configured size
//!   lost-wakeup / deadlock  a caller stays blocked although the pool is not empty / nobody can move and nobody can
//!                           time out
//! plus, layer 1 only, the documented behaviour of the pool (`doc:*` keys: FIFO order, a current-generation resource
//! is admitted iff the pool is not full, acquire on an empty pool ends with `AcquireTimeout`).

use std::collections::{BTreeSet, VecDeque};
use std::sync::atomic::{AtomicU32, Ordering};
use std::sync::{Arc, Mutex as StdMutex};
use std::time::Duration;

use mithril_resource_pool::{ResourcePool, ResourcePoolError, ResourcePoolItem};
use proptest::prelude::*;
use serde::{Deserialize, Serialize};
use vcore::{Args, Check, Report, catch, pick_index};

// ------------------------------------------------------------------------------------------------------------------
// tagged resources
// ------------------------------------------------------------------------------------------------------------------

/// Harness-side bookkeeping shared with every resource of one case. Plain std primitives: in layer 1 there is one
/// thread; in layer 2 all shuttle tasks of an execution are coroutines of one OS thread, so nothing here ever blocks.
#[derive(Default)]
pub struct Shared {
    next_id: AtomicU32,
    dropped: StdMutex<BTreeSet<u32>>,
}

impl Shared {
    fn make(self: &Arc<Self>, generation: u64) -> Res {
        Res { id: self.next_id.fetch_add(1, Ordering::SeqCst), generation, resets: 0, shared: self.clone() }
    }
    fn is_dropped(&self, id: u32) -> bool {
        self.dropped.lock().unwrap().contains(&id)
    }
}

/// A pooled resource: `generation` = the cache generation it was built for.
pub struct Res {
    id: u32,
    generation: u64,
    resets: u32,
    shared: Arc<Shared>,
}

impl Drop for Res {
    fn drop(&mut self) {
        self.shared.dropped.lock().unwrap().insert(self.id);
    }
}

impl mithril_resource_pool::Reset for Res {
    fn reset(&mut self) -> anyhow::Result<()> {
        self.resets += 1;
        Ok(())
    }
}

/// Root causes a staleness violation is attributed to (first wrong event in the history of the resource).
const CAUSE_ITEM: &str = "give_back_item-ignores-item-discriminant";
const CAUSE_LABEL: &str = "acquire-labels-old-resource-with-new-discriminant";
const CAUSE_NONE: &str = "unattributed";

/// `stale:<cause>:<symptom>`; symptom = readmit | served | in-pool-at-end
fn stale_key(cause: &str, symptom: &str) -> String {
    format!("stale:{cause}:{symptom}")
}

/// cause of an admission of a resource of generation `res_gen`, returned through `path` by an item / call that
/// carried `disc`, while the pool's discriminant was `pool_disc` (> res_gen)
fn admission_cause(path: &str, disc: u64, pool_disc: u64) -> String {
    if disc < pool_disc {
        if path == "give_back_item" { CAUSE_ITEM.to_string() } else { format!("{path}-admitted-under-older-discriminant") }
    } else {
        // the label itself was newer than the resource: the damage was done when the item was created
        CAUSE_LABEL.to_string()
    }
}

// ------------------------------------------------------------------------------------------------------------------
// layer 1: sequential, model based, real crate
// ------------------------------------------------------------------------------------------------------------------

#[derive(Clone, Debug, Serialize, Deserialize)]
enum SeqOp {
    Acquire,
    /// explicit `give_back_resource_pool_item` of the k-th held item
    GiveBackItem(u16),
    /// implicit give-back: the k-th held item goes out of scope
    Drop(u16),
    /// `give_back_resource(new resource of the current generation, current discriminant)`
    RawFresh,
    /// `give_back_resource(new resource built for an older generation g, g)` (truthful but late)
    RawStale(u16),
    /// what `compute_cache` does
    Refresh,
    ResetAvailable,
    Count,
}

#[derive(Clone, Debug, Serialize, Deserialize)]
struct SeqCase {
    size: u8,
    /// number of resources passed to `ResourcePool::new` = pick_index(initial, size + 1)
    initial: u16,
    ops: Vec<SeqOp>,
}

fn seq_op_strategy() -> impl Strategy<Value = SeqOp> {
    prop_oneof![
        6 => Just(SeqOp::Acquire),
        3 => any::<u16>().prop_map(SeqOp::GiveBackItem),
        3 => any::<u16>().prop_map(SeqOp::Drop),
        3 => Just(SeqOp::Refresh),
        1 => Just(SeqOp::RawFresh),
        1 => any::<u16>().prop_map(SeqOp::RawStale),
        1 => Just(SeqOp::ResetAvailable),
        1 => Just(SeqOp::Count),
    ]
}

fn seq_strategy() -> impl Strategy<Value = SeqCase> {
    (
        1u8..=4,
        prop_oneof![2 => Just(0u16), 2 => Just(u16::MAX), 1 => any::<u16>()],
        prop::collection::vec(seq_op_strategy(), 1..=24),
    )
        .prop_map(|(size, initial, ops)| SeqCase { size, initial, ops })
}

struct Held<'a> {
    item: ResourcePoolItem<'a, Res>,
    id: u32,
    generation: u64,
}

fn seq_case(c: &SeqCase) -> Report {
    let mut rep = Report::new();
    let size = c.size.clamp(1, 8) as usize;
    let shared = Arc::new(Shared::default());
    let n0 = pick_index(c.initial, size + 1);
    let initial: Vec<Res> = (0..n0).map(|_| shared.make(0)).collect();
    let mut idle: VecDeque<(u32, u64)> = initial.iter().map(|r| (r.id, r.generation)).collect();
    let pool = ResourcePool::new(size, initial);
    let mut held: Vec<Held<'_>> = vec![];
    let mut generation: u64 = 0;
    let mut trace: Vec<String> = vec![];
    let mut nontrivial = false;
    rep.label(format!("seq:size={size}"));
    rep.label(if n0 == 0 { "seq:initial-empty" } else if n0 == size { "seq:initial-full" } else { "seq:initial-partial" });

    // the scripted ops, then every item still held goes out of scope (implicit give-back)
    let mut queue: VecDeque<SeqOp> = c.ops.iter().cloned().collect();
    let mut step = 0usize;
    loop {
        let op = match queue.pop_front() {
            Some(op) => op,
            None if !held.is_empty() => SeqOp::Drop(0),
            None => break,
        };
        step += 1;
        macro_rules! fail {
            ($key:expr, $($what:tt)*) => {{
                rep.violation($key, format!("step {step} {op:?}: {} | size={size} initial={n0} generation={generation} trace={}", format!($($what)*), trace.join(" ")));
                if nontrivial { rep.nontrivial(format!("{size}/{n0}/{}", trace.join(" "))); }
                rep.labels.sort();
                rep.labels.dedup();
                return rep;
            }};
        }
        // classify + run one give-back through `path`; returns whether the resource was admitted
        macro_rules! give_back {
            ($path:expr, $id:expr, $res_gen:expr, $disc:expr, $call:expr) => {{
                let (id, res_gen, disc): (u32, u64, u64) = ($id, $res_gen, $disc);
                let stale = res_gen < generation;
                let full = idle.len() >= size;
                if generation > 0 && !full {
                    nontrivial = true;
                    rep.label("giveback-after-refresh-notfull");
                    if stale {
                        rep.label("stale-giveback-notfull");
                        rep.label(format!("stale-giveback-notfull:{}", $path));
                    }
                }
                if full {
                    rep.label("giveback-when-full");
                }
                let result: anyhow::Result<()> = $call;
                if let Err(e) = result {
                    fail!(format!("unexpected-error:{}", $path), "give-back failed: {e:#}");
                }
                let admitted = !shared.is_dropped(id);
                trace.push(format!("{}{}{}", $path, if stale { "~" } else { "" }, if admitted { "+" } else { "-" }));
                if admitted && stale {
                    fail!(
                        stale_key(&admission_cause($path, disc, generation), "readmit"),
                        "resource #{id} of generation {res_gen} (returned with discriminant {disc}) was re-admitted while the pool is at generation {generation}"
                    );
                }
                if admitted && full {
                    fail!("overfill:sequential", "resource #{id} admitted into a full pool");
                }
                if !admitted && !stale && !full {
                    fail!(format!("doc:fresh-rejected:{}", $path), "resource #{id} of the current generation {generation} was rejected although the pool holds {} < {size}", idle.len());
                }
                if admitted {
                    idle.push_back((id, res_gen));
                }
            }};
        }
        match op.clone() {
            SeqOp::Acquire => {
                let expect = idle.front().copied();
                match (pool.acquire_resource(Duration::from_millis(1)), expect) {
                    (Ok(item), Some((eid, egen))) => {
                        let (id, res_gen, disc) = (item.id, item.generation, item.discriminant());
                        trace.push(format!("A{res_gen}"));
                        if res_gen < generation {
                            fail!(stale_key(CAUSE_NONE, "served"), "acquire handed out resource #{id} of generation {res_gen} (item discriminant {disc}) at generation {generation}");
                        }
                        if (id, res_gen) != (eid, egen) {
                            fail!("doc:fifo-order", "acquire handed out #{id} (gen {res_gen}), the FIFO model expected #{eid} (gen {egen})");
                        }
                        if disc != generation {
                            fail!("doc:item-discriminant", "item discriminant {disc} differs from the pool generation {generation}");
                        }
                        idle.pop_front();
                        held.push(Held { item, id, generation: res_gen });
                        rep.label("seq:acquire-ok");
                    }
                    (Ok(item), None) => {
                        fail!("acquire-on-empty-succeeded", "acquire returned #{} although the model pool is empty", item.id);
                    }
                    (Err(e), Some(_)) => fail!("acquire-nonempty-failed", "acquire failed on a non-empty pool: {e:#}"),
                    (Err(e), None) => {
                        trace.push("A!".into());
                        rep.label("seq:acquire-empty-timeout");
                        if !matches!(e.downcast_ref::<ResourcePoolError>(), Some(ResourcePoolError::AcquireTimeout)) {
                            fail!("doc:acquire-empty-wrong-error", "acquire on an empty pool ended with {e:#} instead of AcquireTimeout");
                        }
                    }
                }
            }
            SeqOp::GiveBackItem(raw) => {
                if held.is_empty() {
                    rep.label("seq:skip-nothing-held");
                    continue;
                }
                let h = held.remove(pick_index(raw, held.len()));
                let disc = h.item.discriminant();
                give_back!("give_back_item", h.id, h.generation, disc, pool.give_back_resource_pool_item(h.item));
            }
            SeqOp::Drop(raw) => {
                if held.is_empty() {
                    rep.label("seq:skip-nothing-held");
                    continue;
                }
                let h = held.remove(pick_index(raw, held.len()));
                let disc = h.item.discriminant();
                give_back!("drop", h.id, h.generation, disc, {
                    drop(h.item);
                    Ok(())
                });
            }
            SeqOp::RawFresh => {
                let d = match pool.discriminant() {
                    Ok(d) => d,
                    Err(e) => fail!("unexpected-error:discriminant", "{e:#}"),
                };
                if d != generation {
                    fail!("doc:discriminant", "pool discriminant {d}, expected {generation}");
                }
                let res = shared.make(d);
                let id = res.id;
                give_back!("raw", id, d, d, pool.give_back_resource(res, d));
            }
            SeqOp::RawStale(raw) => {
                if generation == 0 {
                    rep.label("seq:skip-no-older-generation");
                    continue;
                }
                let g = pick_index(raw, generation as usize) as u64;
                let res = shared.make(g);
                let id = res.id;
                give_back!("raw", id, g, g, pool.give_back_resource(res, g));
            }
            SeqOp::Refresh => {
                // exactly the caller's sequence (mithril-aggregator/src/services/prover.rs, compute_cache)
                let d_new = match pool.discriminant() {
                    Ok(d) => d + 1,
                    Err(e) => fail!("unexpected-error:discriminant", "{e:#}"),
                };
                generation += 1;
                if d_new != generation {
                    fail!("doc:discriminant", "pool discriminant+1 = {d_new}, expected {generation}");
                }
                if let Err(e) = pool.set_discriminant(d_new) {
                    fail!("unexpected-error:set_discriminant", "{e:#}");
                }
                pool.clear();
                idle.clear();
                trace.push(format!("R{generation}"));
                for _ in 0..pool.size() {
                    let res = shared.make(d_new);
                    let id = res.id;
                    if let Err(e) = pool.give_back_resource(res, d_new) {
                        fail!("unexpected-error:refill", "{e:#}");
                    }
                    if shared.is_dropped(id) {
                        fail!("doc:refill-rejected", "refill resource #{id} of generation {d_new} rejected, pool holds {}", idle.len());
                    }
                    idle.push_back((id, d_new));
                }
                rep.label(if held.is_empty() { "seq:refresh-nothing-out" } else { "seq:refresh-with-items-out" });
            }
            SeqOp::ResetAvailable => {
                if let Err(e) = pool.reset_available_resources() {
                    fail!("unexpected-error:reset_available", "{e:#}");
                }
                trace.push("Z".into());
            }
            SeqOp::Count => trace.push("C".into()),
        }
        // after every op
        let n = match pool.count() {
            Ok(n) => n,
            Err(e) => fail!("unexpected-error:count", "{e:#}"),
        };
        if n > size {
            fail!("overfill:sequential", "pool holds {n} > size {size}");
        }
        if n != idle.len() {
            fail!("doc:count", "count() = {n}, model holds {}", idle.len());
        }
        if let Some((id, g)) = idle.iter().find(|(_, g)| *g != generation) {
            // cannot happen without one of the violations above; kept as a guard of the harness' own bookkeeping
            fail!("stale-idle", "idle resource #{id} of generation {g} at generation {generation}");
        }
    }
    if nontrivial {
        rep.nontrivial(format!("{size}/{n0}/{}", trace.join(" ")));
    }
    rep.labels.sort();
    rep.labels.dedup();
    rep
}

/// F14 witness: acquire under generation 0, refresh, acquire one fresh resource (pool not full), explicit give-back
fn witness_give_back_item() -> bool {
    let c = SeqCase {
        size: 1,
        initial: u16::MAX,
        ops: vec![SeqOp::Acquire, SeqOp::Refresh, SeqOp::Acquire, SeqOp::GiveBackItem(0)],
    };
    matches!(seq_case(&c).outcome, vcore::Outcome::Violation { ref key, .. } if key == KEY_F14)
}

const KEY_F14: &str = "stale:give_back_item-ignores-item-discriminant:readmit";

// ------------------------------------------------------------------------------------------------------------------
// layer 2: schedules (shuttle)
// ------------------------------------------------------------------------------------------------------------------

/// The working tree's `resource_pool.rs`, rewritten by build.rs to use [`shim`].
#[cfg(c18_rewrite_ok)]
#[allow(dead_code, unused_imports, missing_docs, clippy::all)]
mod pool_sh {
    include!(concat!(env!("OUT_DIR"), "/pool_shuttle.rs"));
}

const REWRITE_STATUS: &str = include_str!(concat!(env!("OUT_DIR"), "/rewrite_status.txt"));

/// Drop-in replacements for `std::sync::{Mutex, Condvar}` inside the rewritten source.
#[cfg(c18_rewrite_ok)]
pub mod shim {
    use std::cell::RefCell;
    use std::sync::{Arc, PoisonError};
    use std::time::Duration;

    pub use shuttle::sync::MutexGuard;

    /// `std::sync::Mutex` on top of shuttle's. The only addition: every lock of a `Mutex<u64>` (the pool's
    /// discriminant) notes the value seen by the locking task, so that the harness knows exactly which pool
    /// generation an admission decision was made under (used only to *attribute* violations to a root cause).
    #[derive(Debug, Default)]
    pub struct Mutex<T> {
        inner: shuttle::sync::Mutex<T>,
    }

    #[allow(dead_code)]
    impl<T> Mutex<T> {
        pub fn new(value: T) -> Self {
            Mutex { inner: shuttle::sync::Mutex::new(value) }
        }
        pub fn lock(&self) -> LockResult<MutexGuard<'_, T>> {
            let r = self.inner.lock();
            if let Ok(g) = &r {
                note_discriminant_read::<T>(&**g);
            }
            r
        }
        pub fn get_mut(&mut self) -> LockResult<&mut T> {
            self.inner.get_mut()
        }
        pub fn into_inner(self) -> LockResult<T> {
            self.inner.into_inner()
        }
    }

    fn note_discriminant_read<T>(value: &T) {
        if std::any::type_name::<T>() == "u64" && std::mem::size_of::<T>() == 8 {
            // SAFETY: T is u64 (checked by name and size just above)
            let d = unsafe { *(value as *const T as *const u64) };
            if let Some(t) = shuttle::current::get_current_task() {
                CTX.with(|c| {
                    c.borrow_mut().last_disc_read.insert(usize::from(t), d);
                });
            }
        }
    }

    /// forget / fetch the last discriminant value the calling task has read from the pool
    pub fn clear_my_discriminant_read() {
        if let Some(t) = shuttle::current::get_current_task() {
            CTX.with(|c| {
                c.borrow_mut().last_disc_read.remove(&usize::from(t));
            });
        }
    }
    pub fn my_last_discriminant_read() -> Option<u64> {
        let t = shuttle::current::get_current_task()?;
        CTX.with(|c| c.borrow().last_disc_read.get(&usize::from(t)).copied())
    }

    struct Waiter {
        wid: u32,
        cv: Arc<shuttle::sync::Condvar>,
        can_time_out: bool,
    }

    /// Per-execution registry of the tasks blocked in a condvar wait. A std thread-local on purpose: all tasks of a
    /// shuttle execution are coroutines of the OS thread that called `Runner::run`. Never borrowed across a shuttle
    /// scheduling point.
    #[derive(Default)]
    struct ExecCtx {
        next_wid: u32,
        waiters: Vec<Waiter>,
        fired: Option<u32>,
        waits: u32,
        timeouts: u32,
        waits_by_task: std::collections::BTreeMap<usize, u32>,
        last_disc_read: std::collections::BTreeMap<usize, u64>,
    }

    thread_local! {
        static CTX: RefCell<ExecCtx> = RefCell::new(ExecCtx::default());
    }

    pub fn reset() {
        CTX.with(|c| *c.borrow_mut() = ExecCtx::default());
    }
    /// (number of condvar waits, number of modelled timeouts) so far in this execution
    pub fn counters() -> (u32, u32) {
        CTX.with(|c| {
            let c = c.borrow();
            (c.waits, c.timeouts)
        })
    }
    /// number of condvar waits of the calling task so far
    pub fn my_waits() -> u32 {
        let me = shuttle::current::get_current_task().map(usize::from);
        CTX.with(|c| me.and_then(|t| c.borrow().waits_by_task.get(&t).copied()).unwrap_or(0))
    }
    pub fn blocked_waiters() -> usize {
        CTX.with(|c| c.borrow().waiters.len())
    }

    pub enum Fire {
        /// the oldest waiter that can time out was told to; the caller must `notify_all` the returned condvar
        Fired(Arc<shuttle::sync::Condvar>),
        /// somebody waits, but without a timeout
        OnlyUntimed,
        NoWaiters,
    }

    /// Called by the timer task (which runs only when no other task can): time out the oldest timed waiter.
    pub fn fire_oldest_timeout() -> Fire {
        CTX.with(|c| {
            let mut c = c.borrow_mut();
            if c.waiters.is_empty() {
                return Fire::NoWaiters;
            }
            match c.waiters.iter().find(|w| w.can_time_out).map(|w| (w.wid, w.cv.clone())) {
                Some((wid, cv)) => {
                    c.fired = Some(wid);
                    c.timeouts += 1;
                    Fire::Fired(cv)
                }
                None => Fire::OnlyUntimed,
            }
        })
    }

    fn register(cv: &Arc<shuttle::sync::Condvar>, can_time_out: bool) -> u32 {
        CTX.with(|c| {
            let mut c = c.borrow_mut();
            let wid = c.next_wid;
            c.next_wid += 1;
            c.waits += 1;
            if let Some(t) = shuttle::current::get_current_task() {
                *c.waits_by_task.entry(usize::from(t)).or_insert(0) += 1;
            }
            c.waiters.push(Waiter { wid, cv: cv.clone(), can_time_out });
            wid
        })
    }

    /// remove the waiter; true = it was woken by the modelled timeout
    fn unregister(wid: u32) -> bool {
        CTX.with(|c| {
            let mut c = c.borrow_mut();
            c.waiters.retain(|w| w.wid != wid);
            if c.fired == Some(wid) {
                c.fired = None;
                true
            } else {
                false
            }
        })
    }

    #[derive(Debug, PartialEq, Eq, Copy, Clone)]
    pub struct WaitTimeoutResult(bool);

    impl WaitTimeoutResult {
        pub fn timed_out(&self) -> bool {
            self.0
        }
    }

    pub type LockResult<G> = Result<G, PoisonError<G>>;

    /// `std::sync::Condvar` on top of shuttle's, with modelled timeouts (shuttle's own `wait_timeout` never times
    /// out). A timeout of one waiter wakes the other waiters of the same condvar spuriously (`timed_out() == false`),
    /// which `std` allows at any time.
    #[derive(Debug, Default)]
    pub struct Condvar {
        inner: Arc<shuttle::sync::Condvar>,
    }

    #[allow(dead_code)]
    impl Condvar {
        pub fn new() -> Self {
            Condvar { inner: Arc::new(shuttle::sync::Condvar::new()) }
        }

        pub fn notify_one(&self) {
            self.inner.notify_one()
        }

        pub fn notify_all(&self) {
            self.inner.notify_all()
        }

        pub fn wait<'a, T>(&self, guard: MutexGuard<'a, T>) -> LockResult<MutexGuard<'a, T>> {
            let wid = register(&self.inner, false);
            let r = self.inner.wait(guard);
            unregister(wid);
            r
        }

        pub fn wait_while<'a, T, F>(&self, mut guard: MutexGuard<'a, T>, mut condition: F) -> LockResult<MutexGuard<'a, T>>
        where
            F: FnMut(&mut T) -> bool,
        {
            while condition(&mut *guard) {
                guard = self.wait(guard)?;
            }
            Ok(guard)
        }

        pub fn wait_timeout<'a, T>(
            &self,
            guard: MutexGuard<'a, T>,
            _dur: Duration,
        ) -> LockResult<(MutexGuard<'a, T>, WaitTimeoutResult)> {
            let wid = register(&self.inner, true);
            let r = self.inner.wait(guard);
            let timed_out = unregister(wid);
            match r {
                Ok(g) => Ok((g, WaitTimeoutResult(timed_out))),
                Err(p) => Err(PoisonError::new((p.into_inner(), WaitTimeoutResult(timed_out)))),
            }
        }

        pub fn wait_timeout_while<'a, T, F>(
            &self,
            mut guard: MutexGuard<'a, T>,
            dur: Duration,
            mut condition: F,
        ) -> LockResult<(MutexGuard<'a, T>, WaitTimeoutResult)>
        where
            F: FnMut(&mut T) -> bool,
        {
            while condition(&mut *guard) {
                let (g, t) = self.wait_timeout(guard, dur)?;
                guard = g;
                if t.timed_out() {
                    let still = condition(&mut *guard);
                    return Ok((guard, WaitTimeoutResult(still)));
                }
            }
            Ok((guard, WaitTimeoutResult(false)))
        }
    }
}

#[derive(Clone, Debug, Serialize, Deserialize)]
enum COp {
    Acquire,
    GiveBackItem(u16),
    Drop(u16),
    /// only meaningful in the refresher's script
    Refresh,
    RawFresh,
    RawStale(u16),
    ResetAvailable,
    Count,
}

#[derive(Clone, Debug, Serialize, Deserialize)]
struct ConcCase {
    size: u8,
    initial_full: bool,
    /// script of the single thread that refreshes the cache (assumption: refreshes never overlap each other)
    refresher: Vec<COp>,
    /// scripts of the 1–3 other threads
    users: Vec<Vec<COp>>,
    /// scheduling choices, consumed at every point where more than one thread can move:
    /// candidates = [running thread, other runnable threads by id]; next = candidates[choice % len]; exhausted = 0
    choices: Vec<u8>,
}

fn cop_strategy(refresher: bool, extras: bool) -> impl Strategy<Value = COp> {
    let mut options: Vec<(u32, BoxedStrategy<COp>)> = vec![
        (8, Just(COp::Acquire).boxed()),
        (4, any::<u16>().prop_map(COp::GiveBackItem).boxed()),
        (3, any::<u16>().prop_map(COp::Drop).boxed()),
        (1, any::<u16>().prop_map(COp::RawStale).boxed()),
        (1, Just(COp::ResetAvailable).boxed()),
        (1, Just(COp::Count).boxed()),
    ];
    if refresher {
        options.push((6, Just(COp::Refresh).boxed()));
    }
    if extras {
        options.push((2, Just(COp::RawFresh).boxed()));
    }
    proptest::strategy::Union::new_weighted(options)
}

fn conc_strategy() -> impl Strategy<Value = ConcCase> {
    // extras = scripts may give back additional brand-new current-generation resources (public API, but not something
    // the aggregator does outside compute_cache): one case in four
    (prop_oneof![3 => Just(false), 1 => Just(true)], prop_oneof![1 => Just(2u32), 2 => Just(5u32)]).prop_flat_map(
        |(extras, zero_weight)| {
            (
                1u8..=3,
                prop_oneof![3 => Just(true), 1 => Just(false)],
                prop::collection::vec(cop_strategy(true, extras), 1..=5),
                prop::collection::vec(prop::collection::vec(cop_strategy(false, extras), 1..=6), 1..=3),
                prop::collection::vec(prop_oneof![zero_weight => Just(0u8), 3 => 1u8..=6], 0..=160),
            )
                .prop_map(|(size, initial_full, refresher, users, choices)| ConcCase {
                    size,
                    initial_full,
                    refresher,
                    users,
                    choices,
                })
        },
    )
}

#[cfg(c18_rewrite_ok)]
mod conc {
    use super::*;
    use pool_sh::{ResourcePool as ShPool, ResourcePoolError as ShError, ResourcePoolItem as ShItem};
    use shuttle::scheduler::{Schedule, Scheduler, Task, TaskId};
    use std::sync::atomic::{AtomicBool, AtomicU64};

    pub const TIMER: &str = "c18-timer";

    impl pool_sh::Reset for Res {
        fn reset(&mut self) -> anyhow::Result<()> {
            self.resets += 1;
            Ok(())
        }
    }

    /// The schedule is data of the case.
    pub struct ScriptSched {
        choices: Vec<u8>,
        pos: usize,
        started: bool,
        stats: Arc<SchedStats>,
    }

    #[derive(Default)]
    pub struct SchedStats {
        pub decisions: AtomicU32,
        pub preemptions: AtomicU32,
    }

    impl ScriptSched {
        pub fn new(choices: Vec<u8>, stats: Arc<SchedStats>) -> Self {
            ScriptSched { choices, pos: 0, started: false, stats }
        }
    }

    impl Scheduler for ScriptSched {
        fn new_execution(&mut self) -> Option<Schedule> {
            if self.started {
                None
            } else {
                self.started = true;
                self.pos = 0;
                Some(Schedule::new(0))
            }
        }

        fn next_task(&mut self, runnable: &[&Task], current: Option<TaskId>, _is_yielding: bool) -> Option<TaskId> {
            let mut cands: Vec<TaskId> = Vec::with_capacity(runnable.len());
            let mut timer = None;
            for t in runnable {
                if !t.runnable() {
                    continue;
                }
                if t.name().as_deref() == Some(TIMER) {
                    timer = Some(t.id());
                } else {
                    cands.push(t.id());
                }
            }
            if cands.is_empty() {
                // the timer runs only when nobody else can: "timeouts are long"
                return timer.or_else(|| runnable.first().map(|t| t.id()));
            }
            cands.sort_by_key(|t| usize::from(*t));
            if let Some(cur) = current {
                if let Some(i) = cands.iter().position(|t| *t == cur) {
                    let c = cands.remove(i);
                    cands.insert(0, c);
                }
            }
            if cands.len() == 1 {
                return Some(cands[0]);
            }
            let c = self.choices.get(self.pos).copied().unwrap_or(0) as usize % cands.len();
            self.pos += 1;
            self.stats.decisions.fetch_add(1, Ordering::Relaxed);
            if c != 0 && current == Some(cands[0]) {
                self.stats.preemptions.fetch_add(1, Ordering::Relaxed);
            }
            Some(cands[c])
        }

        fn next_u64(&mut self) -> u64 {
            0
        }
    }

    /// what one execution reports back (std primitives, shared by all tasks of the execution)
    #[derive(Default)]
    pub struct ConcState {
        /// highest generation whose refresh (set_discriminant, clear, refill) has completed
        completed_gen: AtomicU64,
        done: AtomicU32,
        extras_used: AtomicBool,
        finished: AtomicBool,
        trace: StdMutex<Vec<String>>,
        labels: StdMutex<BTreeSet<String>>,
        violations: StdMutex<Vec<(String, String)>>,
        nontrivial: AtomicBool,
        /// resource id -> root cause: the first wrong event in its history (admitted although the pool was at a
        /// newer generation; or handed out under a label newer than its generation)
        taint: StdMutex<std::collections::BTreeMap<u32, String>>,
    }

    impl ConcState {
        fn label(&self, l: impl Into<String>) {
            self.labels.lock().unwrap().insert(l.into());
        }
        fn ev(&self, e: String) {
            self.trace.lock().unwrap().push(e);
        }
        fn violation(&self, key: impl Into<String>, what: String) {
            self.violations.lock().unwrap().push((key.into(), what));
        }
        fn completed(&self) -> u64 {
            self.completed_gen.load(Ordering::SeqCst)
        }
        fn stale_key(&self, symptom: &str, id: u32) -> String {
            let cause = self.taint.lock().unwrap().get(&id).cloned();
            stale_key(cause.as_deref().unwrap_or(CAUSE_NONE), symptom)
        }
        fn taint(&self, id: u32, cause: String) {
            self.taint.lock().unwrap().entry(id).or_insert(cause);
        }
    }

    struct HeldSh<'a> {
        item: ShItem<'a, Res>,
        id: u32,
        generation: u64,
    }

    struct Worker<'a> {
        tid: usize,
        size: usize,
        pool: &'a ShPool<Res>,
        shared: &'a Arc<Shared>,
        st: &'a ConcState,
        held: Vec<HeldSh<'a>>,
    }

    impl<'a> Worker<'a> {
        fn count(&self, at: &str) -> usize {
            match self.pool.count() {
                Ok(n) => {
                    if n > self.size {
                        let key = if self.st.extras_used.load(Ordering::SeqCst) {
                            "overfill:with-extra-give-back"
                        } else {
                            "overfill:concurrent"
                        };
                        self.st.violation(key, format!("t{} {at}: count() = {n} > size {}", self.tid, self.size));
                    }
                    n
                }
                Err(e) => {
                    self.st.violation("unexpected-error:count", format!("t{} {at}: {e:#}", self.tid));
                    0
                }
            }
        }

        /// one give-back through `path`; `call` performs it
        fn give_back(&self, path: &str, id: u32, res_gen: u64, disc: u64, call: impl FnOnce() -> anyhow::Result<()>) {
            let c0 = self.st.completed();
            let n0 = self.count(path);
            let stale = res_gen < c0;
            if c0 > 0 && n0 < self.size {
                self.st.nontrivial.store(true, Ordering::SeqCst);
                self.st.label("giveback-after-refresh-notfull");
                if stale {
                    self.st.label("stale-giveback-notfull");
                    self.st.label(format!("stale-giveback-notfull:{path}"));
                }
            }
            shim::clear_my_discriminant_read();
            if let Err(e) = call() {
                self.st.violation(format!("unexpected-error:{path}"), format!("t{}: {e:#}", self.tid));
            }
            let admitted = !self.shared.is_dropped(id);
            // the pool generation the admission was decided under = the last discriminant value this task read
            if let (true, Some(pool_disc)) = (admitted, shim::my_last_discriminant_read()) {
                if res_gen < pool_disc {
                    self.st.taint(id, admission_cause(path, disc, pool_disc));
                }
            }
            self.st.ev(format!("t{}:{path}{}{}", self.tid, if stale { "~" } else { "" }, if admitted { "+" } else { "-" }));
            if admitted && stale {
                self.st.violation(
                    self.st.stale_key("readmit", id),
                    format!(
                        "t{}: resource #{id} of generation {res_gen} (returned with discriminant {disc}) was re-admitted by a give-back that started after the refresh to generation {c0} had completed",
                        self.tid
                    ),
                );
            }
            self.count(path);
        }

        fn run(&mut self, ops: &[COp], may_refresh: bool) {
            for op in ops {
                match op {
                    COp::Acquire => {
                        let c0 = self.st.completed();
                        let waits0 = shim::my_waits();
                        match self.pool.acquire_resource(Duration::from_millis(1000)) {
                            Ok(item) => {
                                let (id, g, disc) = (item.id, item.generation, item.discriminant());
                                self.st.ev(format!("t{}:A{g}", self.tid));
                                if disc > g {
                                    self.st.taint(id, CAUSE_LABEL.to_string());
                                }
                                if shim::my_waits() > waits0 {
                                    self.st.label("acquire-blocked-then-served");
                                }
                                if g < c0 {
                                    self.st.violation(
                                        self.st.stale_key("served", id),
                                        format!(
                                            "t{}: an acquire that started after the refresh to generation {c0} had completed handed out resource #{id} of generation {g} (item discriminant {disc})",
                                            self.tid
                                        ),
                                    );
                                }
                                self.held.push(HeldSh { item, id, generation: g });
                            }
                            Err(e) => {
                                self.st.ev(format!("t{}:A!", self.tid));
                                self.st.label("acquire-timed-out");
                                if !matches!(e.downcast_ref::<ShError>(), Some(ShError::AcquireTimeout)) {
                                    self.st.violation("unexpected-error:acquire", format!("t{}: {e:#}", self.tid));
                                }
                            }
                        }
                    }
                    COp::GiveBackItem(raw) => {
                        if self.held.is_empty() {
                            continue;
                        }
                        let h = self.held.remove(pick_index(*raw, self.held.len()));
                        let disc = h.item.discriminant();
                        let pool = self.pool;
                        self.give_back("give_back_item", h.id, h.generation, disc, move || {
                            pool.give_back_resource_pool_item(h.item)
                        });
                    }
                    COp::Drop(raw) => {
                        if self.held.is_empty() {
                            continue;
                        }
                        let h = self.held.remove(pick_index(*raw, self.held.len()));
                        self.drop_item(h);
                    }
                    COp::Refresh => {
                        if !may_refresh {
                            continue;
                        }
                        // the caller's sequence (compute_cache)
                        let pool = self.pool;
                        let d_new = match pool.discriminant() {
                            Ok(d) => d + 1,
                            Err(e) => {
                                self.st.violation("unexpected-error:discriminant", format!("{e:#}"));
                                continue;
                            }
                        };
                        self.st.ev(format!("t{}:R{d_new}(", self.tid));
                        if let Err(e) = pool.set_discriminant(d_new) {
                            self.st.violation("unexpected-error:set_discriminant", format!("{e:#}"));
                        }
                        pool.clear();
                        for _ in 0..pool.size() {
                            let res = self.shared.make(d_new);
                            if let Err(e) = pool.give_back_resource(res, d_new) {
                                self.st.violation("unexpected-error:refill", format!("{e:#}"));
                            }
                        }
                        self.st.completed_gen.store(d_new, Ordering::SeqCst);
                        self.st.ev(format!("t{}:R{d_new})", self.tid));
                        self.st.label("refresh");
                        self.count("refresh");
                    }
                    COp::RawFresh => {
                        let pool = self.pool;
                        let d = match pool.discriminant() {
                            Ok(d) => d,
                            Err(e) => {
                                self.st.violation("unexpected-error:discriminant", format!("{e:#}"));
                                continue;
                            }
                        };
                        self.st.extras_used.store(true, Ordering::SeqCst);
                        let res = self.shared.make(d);
                        let id = res.id;
                        self.give_back("raw", id, d, d, move || pool.give_back_resource(res, d));
                    }
                    COp::RawStale(raw) => {
                        let c0 = self.st.completed();
                        if c0 == 0 {
                            continue;
                        }
                        let g = pick_index(*raw, c0 as usize) as u64;
                        let pool = self.pool;
                        let res = self.shared.make(g);
                        let id = res.id;
                        self.give_back("raw", id, g, g, move || pool.give_back_resource(res, g));
                    }
                    COp::ResetAvailable => {
                        if let Err(e) = self.pool.reset_available_resources() {
                            self.st.violation("unexpected-error:reset_available", format!("{e:#}"));
                        }
                        self.st.ev(format!("t{}:Z", self.tid));
                    }
                    COp::Count => {
                        let n = self.count("count");
                        self.st.ev(format!("t{}:C{n}", self.tid));
                    }
                }
            }
            // end of scope: every item still held is given back implicitly
            while let Some(h) = self.held.pop() {
                self.drop_item(h);
            }
        }

        fn drop_item(&self, h: HeldSh<'a>) {
            let disc = h.item.discriminant();
            self.give_back("drop", h.id, h.generation, disc, move || {
                drop(h.item);
                Ok(())
            });
        }
    }

    /// body of one shuttle execution
    fn execution(c: &ConcCase, st: &Arc<ConcState>) {
        shim::reset();
        let size = c.size.clamp(1, 8) as usize;
        let shared = Arc::new(Shared::default());
        let initial: Vec<Res> = if c.initial_full { (0..size).map(|_| shared.make(0)).collect() } else { vec![] };
        let pool = Arc::new(ShPool::new(size, initial));
        let scripts: Vec<(Vec<COp>, bool)> =
            std::iter::once((c.refresher.clone(), true)).chain(c.users.iter().cloned().map(|u| (u, false))).collect();
        let n_workers = scripts.len() as u32;
        let mut handles = vec![];
        for (tid, (ops, may_refresh)) in scripts.into_iter().enumerate() {
            let (pool, shared, st) = (pool.clone(), shared.clone(), st.clone());
            let h = shuttle::thread::Builder::new()
                .name(format!("w{tid}"))
                .spawn(move || {
                    {
                        let mut w = Worker { tid, size, pool: &pool, shared: &shared, st: &st, held: vec![] };
                        w.run(&ops, may_refresh);
                    }
                    st.done.fetch_add(1, Ordering::SeqCst);
                })
                .expect("spawn");
            handles.push(h);
        }
        // the timer: scheduled only when no other task is runnable
        let timer = {
            let (pool, st) = (pool.clone(), st.clone());
            shuttle::thread::Builder::new()
                .name(TIMER.to_string())
                .spawn(move || {
                    loop {
                        shuttle::thread::yield_now();
                        if st.done.load(Ordering::SeqCst) == n_workers {
                            break;
                        }
                        let blocked = shim::blocked_waiters();
                        if blocked > 0 {
                            // everybody who is not finished is blocked: nobody is about to wake these waiters
                            let n = pool.count().unwrap_or(0);
                            if n > 0 {
                                st.violation(
                                    "lost-wakeup",
                                    format!("{blocked} caller(s) blocked in acquire although the pool holds {n} resource(s) and no other thread can move"),
                                );
                            }
                        }
                        match shim::fire_oldest_timeout() {
                            shim::Fire::Fired(cv) => {
                                st.label("timeout-fired");
                                cv.notify_all();
                            }
                            shim::Fire::OnlyUntimed | shim::Fire::NoWaiters => {
                                st.violation(
                                    "deadlock",
                                    format!("no thread can move, {} of {n_workers} finished, {blocked} blocked in an untimed wait", st.done.load(Ordering::SeqCst)),
                                );
                                panic!("c18: deadlock");
                            }
                        }
                    }
                })
                .expect("spawn")
        };
        for h in handles {
            h.join().expect("worker");
        }
        timer.join().expect("timer");

        // final state: not more than `size`, and only resources of the last generation
        let last = st.completed();
        let n = pool.count().unwrap_or(0);
        if n > size {
            let key = if st.extras_used.load(Ordering::SeqCst) { "overfill:with-extra-give-back" } else { "overfill:concurrent" };
            st.violation(key, format!("end: count() = {n} > size {size}"));
        }
        let mut drained = vec![];
        for _ in 0..n {
            match pool.acquire_resource(Duration::from_millis(1000)) {
                Ok(item) => {
                    if item.generation != last {
                        st.violation(
                            st.stale_key("in-pool-at-end", item.id),
                            format!("after all threads finished the pool holds resource #{} of generation {} while the last completed refresh is generation {last}", item.id, item.generation),
                        );
                    }
                    drained.push(item);
                }
                Err(e) => st.violation("unexpected-error:drain", format!("{e:#}")),
            }
        }
        let (waits, timeouts) = shim::counters();
        if waits > 0 {
            st.label("some-acquire-blocked");
        }
        let _ = timeouts;
        drop(drained);
        st.finished.store(true, Ordering::SeqCst);
    }

    type Job = Box<dyn FnOnce() -> Result<usize, String> + Send + 'static>;

    struct Executor {
        jobs: std::sync::mpsc::Sender<Job>,
        results: std::sync::mpsc::Receiver<Result<usize, String>>,
    }

    thread_local! {
        static EXECUTOR: std::cell::RefCell<Option<Executor>> = const { std::cell::RefCell::new(None) };
    }

    /// Shuttle executions run on a helper OS thread owned by the calling engine thread. If the code under test
    /// panics inside a shuttle task, shuttle abandons the half-unwound coroutines (`immediately_return_on_panic`;
    /// without it a second panic in another task aborts the process), which leaves that OS thread's panic counter
    /// raised for good: the helper is then thrown away and a fresh one is started for the next case.
    fn run_on_executor(job: Job) -> Result<usize, String> {
        EXECUTOR.with(|slot| {
            let mut slot = slot.borrow_mut();
            if slot.is_none() {
                let (jobs, job_rx) = std::sync::mpsc::channel::<Job>();
                let (res_tx, results) = std::sync::mpsc::channel();
                std::thread::Builder::new()
                    .name("c18-exec".into())
                    .spawn(move || {
                        for job in job_rx {
                            if res_tx.send(job()).is_err() {
                                break;
                            }
                        }
                    })
                    .expect("spawn executor thread");
                *slot = Some(Executor { jobs, results });
            }
            let ex = slot.as_ref().unwrap();
            let r = match ex.jobs.send(job) {
                Ok(()) => ex.results.recv().unwrap_or_else(|_| Err("executor thread died".into())),
                Err(_) => Err("executor thread died".into()),
            };
            if r.is_err() {
                *slot = None;
            }
            r
        })
    }

    pub fn conc_case(c: &ConcCase) -> Report {
        let mut rep = Report::new();
        if c.users.is_empty() || c.users.iter().any(|u| u.iter().any(|o| matches!(o, COp::Refresh))) {
            rep.discard("refresh outside the refresher thread / no user thread");
            return rep;
        }
        let st = Arc::new(ConcState::default());
        let stats = Arc::new(SchedStats::default());
        let (case, st2, stats2) = (Arc::new(c.clone()), st.clone(), stats.clone());
        let outcome: Result<usize, String> = run_on_executor(Box::new(move || {
            catch(move || {
                let sched = ScriptSched::new(case.choices.clone(), stats2);
                let mut cfg = shuttle::Config::new();
                cfg.stack_size = 0x40000;
                cfg.failure_persistence = shuttle::FailurePersistence::None;
                cfg.max_steps = shuttle::MaxSteps::FailAfter(50_000);
                cfg.silence_warnings = true;
                cfg.ungraceful_shutdown_config.immediately_return_on_panic = true;
                let runner = shuttle::Runner::new(sched, cfg);
                runner.run(move || execution(&case, &st2))
            })
        }));

        let threads = 1 + c.users.len();
        rep.label(format!("conc:threads={threads}"));
        rep.label(format!("conc:size={}", c.size));
        let pre = stats.preemptions.load(Ordering::Relaxed);
        rep.label(format!("conc:preemptions={}", match pre { 0 => "0", 1 => "1", 2 => "2", 3..=5 => "3-5", 6..=15 => "6-15", _ => "16+" }));
        if stats.decisions.load(Ordering::Relaxed) as usize > c.choices.len() {
            rep.label("conc:choices-exhausted");
        }
        for l in st.labels.lock().unwrap().iter() {
            rep.label(l.clone());
        }
        let trace = st.trace.lock().unwrap().join(" ");
        if st.nontrivial.load(Ordering::SeqCst) {
            rep.nontrivial(format!("{}/{}/{trace}", c.size, c.initial_full));
        }
        let violations = st.violations.lock().unwrap().clone();
        if let Some((key, what)) = violations.first() {
            rep.violation(key.clone(), format!("{what} | size={} initial_full={} trace={trace}", c.size, c.initial_full));
            return rep;
        }
        match outcome {
            Ok(_) if st.finished.load(Ordering::SeqCst) => {}
            Ok(_) => {
                rep.violation("harness:execution-did-not-finish", format!("trace={trace}"));
            }
            Err(msg) if msg.contains("exceeded max_steps") => {
                rep.discard("step bound");
            }
            Err(msg) => {
                // file name without the (target-dir dependent) directory
                let loc = msg.rsplit(" @ ").next().unwrap_or("");
                let loc = loc.rsplit('/').next().unwrap_or(loc).to_string();
                rep.violation(format!("panic:{loc}"), format!("panic inside the schedule: {msg} | trace={trace}"));
            }
        }
        rep
    }

    /// Witness of a schedule-dependent finding: a fixed tiny script, and a fixed deterministic list of interleavings
    /// (not a recorded one, so that it keeps working when the number of scheduling points of the source changes).
    pub fn some_schedule_violates(base: &ConcCase, key_prefix: &str) -> bool {
        for i in 0..4000u64 {
            let mut c = base.clone();
            let mut x = vcore::mix(0xC18, i);
            c.choices = (0..48)
                .map(|_| {
                    x = vcore::mix(x, 1);
                    if x % 3 == 0 { ((x >> 8) % 4) as u8 } else { 0 }
                })
                .collect();
            if let vcore::Outcome::Violation { key, .. } = conc_case(&c).outcome {
                if key.starts_with(key_prefix) {
                    return true;
                }
            }
        }
        false
    }

    /// an acquire that overlaps the refresh, a second acquire (pool not full), then the first item goes out of scope
    pub fn witness_refresh_not_atomic() -> bool {
        let base = ConcCase {
            size: 1,
            initial_full: true,
            refresher: vec![COp::Refresh],
            users: vec![vec![COp::Acquire, COp::Acquire, COp::Drop(0)]],
            choices: vec![],
        };
        some_schedule_violates(&base, &format!("stale:{CAUSE_LABEL}:"))
    }

    /// an item acquired around the refresh is returned while the refill is in progress
    pub fn witness_overfill() -> bool {
        let base = ConcCase {
            size: 1,
            initial_full: true,
            refresher: vec![COp::Refresh],
            users: vec![vec![COp::Acquire, COp::GiveBackItem(0)]],
            choices: vec![],
        };
        some_schedule_violates(&base, "overfill:concurrent")
    }
}

// ------------------------------------------------------------------------------------------------------------------

pub fn run(args: &Args) -> i32 {
    let mut check = Check::new("C18", "exploration", args);
    check
        .rule(
            "sequences: random op sequences (acquire / explicit give-back / drop / raw give-back of a new fresh or stale \
             resource / refresh = the caller's set_discriminant+clear+refill / reset / count) over pool sizes 1-4 on the real \
             crate, checked against a FIFO model; schedules: 2-4 threads (one refresher) running such scripts on the \
             shuttle-compiled working-tree source under a generated interleaving (choice vector), timeouts modelled as \
             'fire only when nobody else can move'. Non-trivial = a give-back happens after a refresh while the pool is not \
             full; distinct = distinct (size, initial fill, op/outcome trace in execution order).",
        )
        .assume("refreshes of one pool never overlap each other (one compute_cache at a time per prover service)")
        .assume("callers are truthful: give_back_resource(r, d) is only called with the discriminant r was built for; ResourcePool::new gets at most `size` resources")
        .assume("layer 2 trusts shuttle 0.9.3's Mutex/Condvar semantics and explores sequentially-consistent interleavings at lock/unlock/wait/notify granularity; timeouts fire only at quiescence")
        .require_label("giveback-after-refresh-notfull")
        .require_label("stale-giveback-notfull")
        .require_label("stale-giveback-notfull:give_back_item")
        .require_label("stale-giveback-notfull:drop")
        .require_label("seq:acquire-empty-timeout");
    let t = check.tier;

    check.witness(KEY_F14, "give_back_resource_pool_item re-admits a resource checked out before a refresh", witness_give_back_item);

    check.section("sequences", seq_strategy, t.pick(50_000, 2_000_000), seq_case);
    // layer 3: the real prover service over the real pool, harness-controlled in-flight proof computations
    check.require_label("prover:refresh-with-proof-in-flight").require_label("prover:proof-judged").require_label("prover:judged-while-other-in-flight");
    check.require_label("prover:legacy").require_label("prover:current").require_label("prover:proof-ended-inside-refresh-at:Computing-the-Merkle").require_label("prover:proof-ended-inside-refresh-at:Draining-the-Merkle");
    check.section("prover", crate::prover::prover_strategy, t.pick(6000, 300_000), crate::prover::prover_case);

    #[cfg(c18_rewrite_ok)]
    {
        check.require_label("acquire-blocked-then-served").require_label("timeout-fired").require_label("refresh");
        check.witness(
            &stale_key(CAUSE_LABEL, "readmit"),
            "an acquire overlapping set_discriminant/clear labels an old resource with the new discriminant; it is re-admitted after the refresh",
            conc::witness_refresh_not_atomic,
        );
        check.witness(
            "overfill:concurrent",
            "count()==size is tested before the lock is taken: a give-back racing with the refill overfills the pool",
            conc::witness_overfill,
        );
        check.section("schedules", conc_strategy, t.pick(100_000, 4_000_000), conc::conc_case);
    }
    #[cfg(not(c18_rewrite_ok))]
    {
        let _ = conc_strategy;
        check.inconclusive(format!("layer 2 disabled, the sync imports of resource_pool.rs could not be rewritten: {REWRITE_STATUS}"));
    }
    let _ = REWRITE_STATUS;
    check.finish()
}
