//! C18 — not implemented yet
use vcore::{Args, Check};

pub fn run(args: &Args) -> i32 {
    let check = Check::new("C18", "exploration", args);
    check.inconclusive("check not implemented yet".into());
    check.finish()
}
