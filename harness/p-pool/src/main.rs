mod c18;
mod prover;

fn main() {
    let args = vcore::parse_args();
    let which = args.rest.first().cloned().unwrap_or_default();
    let code = match which.as_str() {
        "C18" => c18::run(&args),
        other => {
            eprintln!("p-pool: unknown property '{other}'");
            2
        }
    };
    std::process::exit(code);
}
