//! C18, layer 3 — the proof cache as the aggregator's prover uses it.
//!
//! The real `MithrilProverService` (its Merkle-map pool, `compute_cache`, `compute_transactions_proofs`) runs over a
//! harness chain-data source whose content can be replaced (roll-back and re-import to the same height) and a Merkle
//! tree storer whose first leaf lookup can be paused, so that the harness — not the OS — decides which proof
//! computations are *in flight* (holding a pooled Merkle map) across a refresh. Generated op sequences; oracle: every
//! proof computation that STARTED after a refresh completed carries the Merkle root of the data of that refresh.
//!
//! Both provers of the aggregator are driven (`MithrilProverService` and `LegacyMithrilProverService`, same pool
//! protocol, separate code), and a refresh can itself be held at one of its own steps: the logger handed to the
//! prover is the harness's, and the k-th log record of a `compute_cache` call (on whatever thread it is emitted,
//! including the parallel clone of the new maps) blocks until the harness has let chosen in-flight proof
//! computations end. So the give-back of an old-generation map lands *inside* the refresh, not only around it.

use std::cell::RefCell;
use std::collections::{BTreeMap, BTreeSet};
use std::ops::Range;
use std::sync::{Arc, Mutex, RwLock, mpsc};
use std::thread;
use std::time::Duration;

use async_trait::async_trait;
use mithril_aggregator::services::{
    BlocksTransactionsRetriever, LegacyMithrilProverService, LegacyProverService, MithrilProverService, ProverService, TransactionsRetriever,
};
use mithril_cardano_node_chain::test::double::InMemoryChainDataStore;
use mithril_common::StdResult;
use mithril_common::crypto_helper::{MKTreeLeafIndexer, MKTreeLeafPosition, MKTreeNode, MKTreeStoreInMemory, MKTreeStorer};
use mithril_common::entities::{
    BlockHash, BlockNumber, BlockRange, CardanoBlock, CardanoBlockTransactionMkTreeNode, CardanoBlockWithTransactions, CardanoTransaction,
    SlotNumber, TransactionHash,
};
use mithril_common::signable_builder::{BlockRangeRootRetriever, LegacyBlockRangeRootRetriever};
use proptest::prelude::*;
use serde::{Deserialize, Serialize};
use vcore::{Report, catch};

const TIMEOUT: Duration = Duration::from_secs(30);

struct Pause {
    reached: mpsc::Sender<()>,
    resume: mpsc::Receiver<()>,
}

thread_local! {
    static PAUSE_NEXT_LEAF_LOOKUP: RefCell<Option<Pause>> = const { RefCell::new(None) };
}

#[derive(Clone)]
struct PausableStore(MKTreeStoreInMemory);

impl MKTreeLeafIndexer for PausableStore {
    fn set_leaf_position(&self, pos: MKTreeLeafPosition, leaf: Arc<MKTreeNode>) -> StdResult<()> {
        self.0.set_leaf_position(pos, leaf)
    }
    fn get_leaf_position(&self, leaf: &MKTreeNode) -> Option<MKTreeLeafPosition> {
        if let Some(p) = PAUSE_NEXT_LEAF_LOOKUP.with(|p| p.borrow_mut().take()) {
            let _ = p.reached.send(());
            let _ = p.resume.recv_timeout(TIMEOUT);
        }
        self.0.get_leaf_position(leaf)
    }
    fn total_leaves(&self) -> usize {
        self.0.total_leaves()
    }
    fn leaves(&self) -> Vec<MKTreeNode> {
        self.0.leaves()
    }
}

impl MKTreeStorer for PausableStore {
    fn build() -> StdResult<Self> {
        Ok(Self(MKTreeStoreInMemory::build()?))
    }
    fn get_elem(&self, pos: u64) -> StdResult<Option<Arc<MKTreeNode>>> {
        self.0.get_elem(pos)
    }
    fn append(&self, pos: u64, elems: Vec<Arc<MKTreeNode>>) -> StdResult<()> {
        self.0.append(pos, elems)
    }
}

struct ChainData {
    current: RwLock<Arc<InMemoryChainDataStore>>,
}

impl ChainData {
    fn store(&self) -> Arc<InMemoryChainDataStore> {
        self.current.read().unwrap().clone()
    }
}

#[async_trait]
impl BlocksTransactionsRetriever for ChainData {
    async fn get_block_by_hashes(&self, block_hashes: Vec<BlockHash>, up_to: BlockNumber) -> StdResult<Vec<CardanoBlock>> {
        let blocks = self.store().get_blocks_by_hashes(&block_hashes).await;
        Ok(blocks.into_iter().filter(|b| b.block_number <= up_to).collect())
    }
    async fn get_transactions_by_hashes(&self, transaction_hashes: Vec<TransactionHash>, up_to: BlockNumber) -> StdResult<Vec<CardanoTransaction>> {
        let transactions = self.store().get_transactions_by_hashes(&transaction_hashes).await;
        Ok(transactions.into_iter().filter(|t| t.block_number <= up_to).collect())
    }
    async fn get_all_mk_nodes_by_ranges_of_block_numbers(&self, ranges_of_block: Vec<Range<BlockNumber>>) -> StdResult<Vec<CardanoBlockTransactionMkTreeNode>> {
        Ok(self.store().get_blocks_with_transactions_in_ranges(&ranges_of_block).await.into_iter().collect())
    }
}

#[async_trait]
impl<S: MKTreeStorer> BlockRangeRootRetriever<S> for ChainData {
    async fn retrieve_block_range_roots<'a>(&'a self, up_to_beacon: BlockNumber) -> StdResult<Box<dyn Iterator<Item = (BlockRange, MKTreeNode)> + 'a>> {
        let store = self.store();
        let roots: Vec<_> = BlockRangeRootRetriever::<S>::retrieve_block_range_roots(&*store, up_to_beacon).await?.collect();
        Ok(Box::new(roots.into_iter()))
    }
    async fn retrieve_block_ranges_nodes(&self, range: Range<BlockNumber>) -> StdResult<BTreeSet<CardanoBlockTransactionMkTreeNode>> {
        BlockRangeRootRetriever::<S>::retrieve_block_ranges_nodes(&*self.store(), range).await
    }
}

type Prover = MithrilProverService<PausableStore>;
type LegacyProver = LegacyMithrilProverService<PausableStore>;

// ---- the legacy prover's chain data: transactions only --------------------------------------------------------

struct LegacyChain {
    current: RwLock<Arc<Vec<CardanoTransaction>>>,
}

fn legacy_transactions(version: u8, ranges: u64) -> Vec<CardanoTransaction> {
    let mut txs = vec![
        CardanoTransaction::new("tx-a", BlockNumber(5), SlotNumber(50), "block-5"),
        CardanoTransaction::new("tx-b", BlockNumber(20), SlotNumber(200), "block-20"),
    ];
    for r in 2..ranges {
        let b = r * 15 + 5;
        txs.push(CardanoTransaction::new(format!("tx-{r}-v{version}"), BlockNumber(b), SlotNumber(b * 10 + version as u64), format!("block-{b}-v{version}")));
    }
    txs
}

impl LegacyChain {
    fn roots(&self, up_to: BlockNumber) -> Vec<(BlockRange, MKTreeNode)> {
        let txs = self.current.read().unwrap().clone();
        let ranges: BTreeSet<BlockRange> = txs.iter().map(|t| BlockRange::from_block_number(t.block_number)).filter(|r| r.end <= up_to + 1).collect();
        ranges
            .into_iter()
            .map(|r| {
                let inside: Vec<CardanoTransaction> = txs.iter().filter(|t| r.contains(&t.block_number)).cloned().collect();
                let root = mithril_common::crypto_helper::MKTree::<MKTreeStoreInMemory>::new(&inside).unwrap().compute_root().unwrap();
                (r, root)
            })
            .collect()
    }
}

#[async_trait]
impl TransactionsRetriever for LegacyChain {
    async fn get_by_hashes(&self, hashes: Vec<TransactionHash>, up_to: BlockNumber) -> StdResult<Vec<CardanoTransaction>> {
        Ok(self.current.read().unwrap().iter().filter(|t| hashes.contains(&t.transaction_hash) && t.block_number <= up_to).cloned().collect())
    }
    async fn get_by_block_ranges(&self, block_ranges: Vec<BlockRange>) -> StdResult<Vec<CardanoTransaction>> {
        Ok(self.current.read().unwrap().iter().filter(|t| block_ranges.contains(&BlockRange::from_block_number(t.block_number))).cloned().collect())
    }
}

#[async_trait]
impl<S: MKTreeStorer> LegacyBlockRangeRootRetriever<S> for LegacyChain {
    async fn retrieve_block_range_roots<'a>(&'a self, up_to_beacon: BlockNumber) -> StdResult<Box<dyn Iterator<Item = (BlockRange, MKTreeNode)> + 'a>> {
        Ok(Box::new(self.roots(up_to_beacon).into_iter()))
    }
}

// ---- a logger that can hold the caller at its k-th record ------------------------------------------------------

struct Armed {
    remaining: u32,
    reached: mpsc::Sender<String>,
    resume: mpsc::Receiver<()>,
}

#[derive(Default)]
struct LogGate {
    armed: Mutex<Option<Armed>>,
}

struct GateDrain(Arc<LogGate>);

impl std::panic::UnwindSafe for GateDrain {}
impl std::panic::RefUnwindSafe for GateDrain {}

impl slog::Drain for GateDrain {
    type Ok = ();
    type Err = slog::Never;
    fn log(&self, record: &slog::Record<'_>, _values: &slog::OwnedKVList) -> Result<(), slog::Never> {
        let hit = {
            let mut g = self.0.armed.lock().unwrap();
            match g.as_mut() {
                Some(a) if a.remaining == 0 => g.take(),
                Some(a) => {
                    a.remaining -= 1;
                    None
                }
                None => None,
            }
        };
        if let Some(a) = hit {
            let words: Vec<String> = record.msg().to_string().split_whitespace().take(3).map(String::from).collect();
            let _ = a.reached.send(words.join("-"));
            let _ = a.resume.recv_timeout(TIMEOUT);
        }
        Ok(())
    }
}

// ---- the two provers behind one face -----------------------------------------------------------------------------

enum Sut {
    New { prover: Prover, chain: Arc<ChainData>, stores: BTreeMap<u8, Arc<InMemoryChainDataStore>> },
    Legacy { prover: LegacyProver, chain: Arc<LegacyChain>, data: BTreeMap<u8, Arc<Vec<CardanoTransaction>>> },
}

impl Sut {
    fn build(legacy: bool, pool_size: usize, logger: slog::Logger) -> Sut {
        if legacy {
            let data: BTreeMap<u8, Arc<Vec<CardanoTransaction>>> = (0u8..3).map(|v| (v, Arc::new(legacy_transactions(v, 4)))).collect();
            let chain = Arc::new(LegacyChain { current: RwLock::new(data[&0].clone()) });
            Sut::Legacy { prover: LegacyProver::new(chain.clone(), chain.clone(), pool_size, logger), chain, data }
        } else {
            // the chain always holds 4 ranges; refreshes go up to the end of range 3 or 4
            let stores: BTreeMap<u8, Arc<InMemoryChainDataStore>> = (0u8..3).map(|v| (v, Arc::new(build_store(v, 4)))).collect();
            let chain = Arc::new(ChainData { current: RwLock::new(stores[&0].clone()) });
            Sut::New { prover: Prover::new(chain.clone(), chain.clone(), pool_size, logger), chain, stores }
        }
    }
    fn set_version(&self, v: u8) {
        match self {
            Sut::New { chain, stores, .. } => *chain.current.write().unwrap() = stores[&v].clone(),
            Sut::Legacy { chain, data, .. } => *chain.current.write().unwrap() = data[&v].clone(),
        }
    }
    fn compute_cache(&self, beacon: BlockNumber) -> StdResult<()> {
        match self {
            Sut::New { prover, .. } => block_on(prover.compute_cache(beacon)),
            Sut::Legacy { prover, .. } => block_on(prover.compute_cache(beacon)),
        }
    }
    /// the root a certificate for `beacon` signs, computed by the harness from the chain data as it is now
    fn expected_root(&self, beacon: BlockNumber) -> String {
        match self {
            Sut::New { chain, .. } => expected_root(&chain.store(), beacon),
            Sut::Legacy { chain, .. } => block_on(LegacyBlockRangeRootRetriever::<MKTreeStoreInMemory>::compute_merkle_map_from_block_range_roots(&**chain, beacon))
                .unwrap()
                .compute_root()
                .unwrap()
                .to_hex(),
        }
    }
    fn prove(&self, up_to: BlockNumber) -> Result<Option<String>, String> {
        match self {
            Sut::New { prover, .. } => prove(prover, up_to),
            Sut::Legacy { prover, .. } => match block_on(prover.compute_transactions_proofs(up_to, &["tx-a".to_string()])) {
                Ok(proofs) => match proofs.first() {
                    Some(p) => {
                        p.verify().map_err(|e| format!("proof does not verify: {e:#}"))?;
                        Ok(Some(p.merkle_root()))
                    }
                    None => Ok(None),
                },
                Err(e) => Err(format!("{e:#}")),
            },
        }
    }
}

fn block_on<F: std::future::Future>(future: F) -> F::Output {
    tokio::runtime::Builder::new_current_thread().enable_all().build().unwrap().block_on(future)
}

/// chain data of `version`: common blocks 5 and 20 (tx-a, tx-b), one block per further range whose content depends on
/// the version (a roll-back and re-import to the same height)
fn build_store(version: u8, ranges: u64) -> InMemoryChainDataStore {
    let mut blocks = vec![
        CardanoBlockWithTransactions::new("block-5", BlockNumber(5), SlotNumber(50), vec!["tx-a"]),
        CardanoBlockWithTransactions::new("block-20", BlockNumber(20), SlotNumber(200), vec!["tx-b"]),
    ];
    for r in 2..ranges {
        let b = r * 15 + 5;
        blocks.push(CardanoBlockWithTransactions::new(format!("block-{b}-v{version}"), BlockNumber(b), SlotNumber(b * 10 + version as u64), vec![format!("tx-{r}-v{version}")]));
    }
    block_on(InMemoryChainDataStore::builder().with_blocks_and_transactions(&blocks).compute_block_ranges(BlockRange::LENGTH * ranges)).build()
}

fn expected_root(store: &Arc<InMemoryChainDataStore>, up_to: BlockNumber) -> String {
    block_on(BlockRangeRootRetriever::<MKTreeStoreInMemory>::compute_merkle_map_from_block_range_roots(&**store, up_to))
        .unwrap()
        .compute_root()
        .unwrap()
        .to_hex()
}

#[derive(Clone, Debug, Serialize, Deserialize)]
pub enum POp {
    /// roll back and import again: the chain data becomes `version`
    SetVersion(u8),
    /// compute_cache(beacon of 3 or 4 complete ranges)
    Refresh { four_ranges: bool },
    /// start a proof computation in slot j and hold it in flight (it owns a pooled Merkle map)
    Start(u8),
    /// let the proof computation of slot j finish
    Complete(u8),
    /// n proof computations from start to end
    Prove(u8),
    /// compute_cache held at its `at`-th log record; while it is held, the in-flight computations of the listed
    /// slots end (their Merkle maps come back to the pool in the middle of the refresh); then the refresh goes on
    RefreshHeld { four_ranges: bool, at: u8, complete: Vec<u8> },
}

#[derive(Clone, Debug, Serialize, Deserialize)]
pub struct PCase {
    pool_size: u8,
    ops: Vec<POp>,
    /// drive `LegacyMithrilProverService` instead of `MithrilProverService`
    #[serde(default)]
    legacy: bool,
}

struct InFlight {
    resume: mpsc::Sender<()>,
    thread: thread::JoinHandle<Result<Option<String>, String>>,
    /// the refresh generation (count) that was the latest completed one when the computation started
    started_after_refresh: u32,
}

fn prove(prover: &Prover, up_to: BlockNumber) -> Result<Option<String>, String> {
    match block_on(prover.compute_transactions_proofs(up_to, &["tx-a".to_string()])) {
        Ok(Some(p)) => {
            p.verify().map_err(|e| format!("proof does not verify: {e:#}"))?;
            Ok(Some(p.merkle_root()))
        }
        Ok(None) => Ok(None),
        Err(e) => Err(format!("{e:#}")),
    }
}

pub fn prover_case(c: &PCase) -> Report {
    let mut rep = Report::new();
    let pool_size = 1 + (c.pool_size % 3) as usize;
    let gate = Arc::new(LogGate::default());
    let sut = Arc::new(Sut::build(c.legacy, pool_size, slog::Logger::root(GateDrain(gate.clone()), slog::o!())));
    let who = if c.legacy { "legacy prover" } else { "prover" };
    rep.label(if c.legacy { "prover:legacy" } else { "prover:current" });
    let mut refresh_count = 0u32;
    // (beacon, expected root) of the latest completed refresh
    let mut current: Option<(BlockNumber, String)> = None;
    let mut slots: BTreeMap<u8, InFlight> = BTreeMap::new();
    let mut trace = vec![];
    let mut judged_after_refresh_with_inflight = false;
    let judge = |rep: &mut Report, what: &str, res: Result<Option<String>, String>, started_after: u32, refresh_count: u32, current: &Option<(BlockNumber, String)>, trace: &Vec<String>| {
        match res {
            Ok(Some(root)) => {
                if started_after == refresh_count {
                    if let Some((_, want)) = current {
                        if &root != want {
                            rep.violation(
                                "prover:proof-from-superseded-cache",
                                format!("{who}, {what}: a proof computation started after refresh #{refresh_count} completed carries the Merkle root {root} of a superseded cache (expected {want}); trace {trace:?}"),
                            );
                        } else {
                            rep.label("prover:proof-judged");
                        }
                    }
                } else {
                    rep.label("prover:proof-in-flight-across-refresh");
                }
            }
            Ok(None) => {
                rep.label("prover:no-proof");
            }
            Err(_) => {
                rep.label("prover:proof-error");
            }
        }
    };
    for op in &c.ops {
        trace.push(format!("{op:?}"));
        match op {
            POp::SetVersion(v) => sut.set_version(v % 3),
            POp::Refresh { four_ranges } => {
                let beacon = BlockRange::LENGTH * (if *four_ranges { 4 } else { 3 }) - 1;
                match catch(|| sut.compute_cache(beacon)) {
                    Ok(Ok(())) => {
                        refresh_count += 1;
                        current = Some((beacon, sut.expected_root(beacon)));
                        rep.label("prover:refresh");
                        if !slots.is_empty() {
                            rep.label("prover:refresh-with-proof-in-flight");
                        }
                    }
                    other => {
                        rep.violation("prover:compute-cache-failed", format!("{who}: compute_cache failed: {:?}; trace {trace:?}", other.map(|r| r.map_err(|e| format!("{e:#}")))));
                        break;
                    }
                }
            }
            POp::RefreshHeld { four_ranges, at, complete } => {
                let beacon = BlockRange::LENGTH * (if *four_ranges { 4 } else { 3 }) - 1;
                let had_inflight = !slots.is_empty();
                let (reached_tx, reached_rx) = mpsc::channel();
                let (resume_tx, resume_rx) = mpsc::channel();
                // records of one call: start, one per new map (parallel), drain, refill, completed
                *gate.armed.lock().unwrap() = Some(Armed { remaining: (*at as u32) % (pool_size as u32 + 4), reached: reached_tx, resume: resume_rx });
                let p = sut.clone();
                let th = thread::spawn(move || catch(|| p.compute_cache(beacon)));
                let mut held_at = None;
                loop {
                    match reached_rx.recv_timeout(Duration::from_millis(2)) {
                        Ok(msg) => {
                            held_at = Some(msg);
                            break;
                        }
                        Err(mpsc::RecvTimeoutError::Timeout) if !th.is_finished() => {}
                        Err(_) => break,
                    }
                }
                if let Some(msg) = &held_at {
                    rep.label(format!("prover:refresh-held-at:{msg}"));
                    let mut ended = 0;
                    for j in complete {
                        if let Some(f) = slots.remove(&(j % 3)) {
                            let _ = f.resume.send(());
                            let res = f.thread.join().unwrap_or_else(|_| Err("thread panicked".into()));
                            judge(&mut rep, "proof ending inside a refresh", res, f.started_after_refresh, refresh_count, &current, &trace);
                            ended += 1;
                        }
                    }
                    if ended > 0 {
                        rep.label("prover:proof-ended-inside-refresh");
                        rep.label(format!("prover:proof-ended-inside-refresh-at:{msg}"));
                    }
                }
                *gate.armed.lock().unwrap() = None;
                let _ = resume_tx.send(());
                match th.join().unwrap_or_else(|_| Err("refresh thread panicked".into())) {
                    Ok(Ok(())) => {
                        refresh_count += 1;
                        current = Some((beacon, sut.expected_root(beacon)));
                        rep.label("prover:refresh");
                        if had_inflight {
                            rep.label("prover:refresh-with-proof-in-flight");
                        }
                    }
                    other => {
                        rep.violation("prover:compute-cache-failed", format!("{who}: compute_cache failed: {:?}; trace {trace:?}", other.map(|r| r.map_err(|e| format!("{e:#}")))));
                        break;
                    }
                }
            }
            POp::Start(j) => {
                let j = j % 3;
                let Some((beacon, _)) = current.clone() else { continue };
                if slots.contains_key(&j) || slots.len() >= pool_size {
                    // every in-flight computation holds a pooled map: one more would block on the empty pool
                    continue;
                }
                let (reached_tx, reached_rx) = mpsc::channel();
                let (resume_tx, resume_rx) = mpsc::channel();
                let p = sut.clone();
                let th = thread::spawn(move || {
                    PAUSE_NEXT_LEAF_LOOKUP.with(|c| *c.borrow_mut() = Some(Pause { reached: reached_tx, resume: resume_rx }));
                    let r = p.prove(beacon);
                    PAUSE_NEXT_LEAF_LOOKUP.with(|c| *c.borrow_mut() = None);
                    r
                });
                // either the computation reaches the lookup (and is held) or it ends without one
                let held = reached_rx.recv_timeout(TIMEOUT).is_ok();
                if held {
                    slots.insert(j, InFlight { resume: resume_tx, thread: th, started_after_refresh: refresh_count });
                    rep.label("prover:proof-held-in-flight");
                } else {
                    let res = th.join().unwrap_or_else(|_| Err("thread panicked".into()));
                    judge(&mut rep, "unheld proof", res, refresh_count, refresh_count, &current, &trace);
                }
            }
            POp::Complete(j) => {
                let j = j % 3;
                if let Some(f) = slots.remove(&j) {
                    let _ = f.resume.send(());
                    let res = f.thread.join().unwrap_or_else(|_| Err("thread panicked".into()));
                    judge(&mut rep, "in-flight proof", res, f.started_after_refresh, refresh_count, &current, &trace);
                }
            }
            POp::Prove(n) => {
                let Some((beacon, _)) = current.clone() else { continue };
                if slots.len() >= pool_size {
                    continue;
                }
                for _ in 0..(1 + n % 4) {
                    let res = catch(|| sut.prove(beacon)).unwrap_or_else(|p| Err(format!("panic {p}")));
                    if refresh_count > 1 && !slots.is_empty() {
                        judged_after_refresh_with_inflight = true;
                    }
                    judge(&mut rep, "proof", res, refresh_count, refresh_count, &current, &trace);
                }
            }
        }
        if rep.is_violation() {
            break;
        }
    }
    // drain: let every held computation finish, then the pool must only serve the current generation
    for (_, f) in std::mem::take(&mut slots) {
        let _ = f.resume.send(());
        let res = f.thread.join().unwrap_or_else(|_| Err("thread panicked".into()));
        judge(&mut rep, "in-flight proof (drain)", res, f.started_after_refresh, refresh_count, &current, &trace);
    }
    if !rep.is_violation() {
        if let Some((beacon, _)) = current.clone() {
            for i in 0..(2 * pool_size + 1) {
                let res = catch(|| sut.prove(beacon)).unwrap_or_else(|p| Err(format!("panic {p}")));
                judge(&mut rep, &format!("final proof #{i}"), res, refresh_count, refresh_count, &current, &trace);
            }
        }
    }
    if judged_after_refresh_with_inflight {
        rep.label("prover:judged-while-other-in-flight");
    }
    if rep.labels.iter().any(|l| l == "prover:refresh-with-proof-in-flight") {
        rep.nontrivial(format!("{who} size:{pool_size} trace:{}", trace.join(",")));
    }
    rep
}

pub fn prover_strategy() -> impl Strategy<Value = PCase> {
    let op = prop_oneof![
        2 => (0u8..3).prop_map(POp::SetVersion),
        2 => any::<bool>().prop_map(|four_ranges| POp::Refresh { four_ranges }),
        3 => (any::<bool>(), 0u8..8, prop::collection::vec(0u8..3, 0..3)).prop_map(|(four_ranges, at, complete)| POp::RefreshHeld { four_ranges, at, complete }),
        4 => (0u8..3).prop_map(POp::Start),
        3 => (0u8..3).prop_map(POp::Complete),
        2 => (0u8..4).prop_map(POp::Prove),
    ];
    (0u8..3, prop::collection::vec(op, 3..14), any::<bool>()).prop_map(|(pool_size, mut ops, legacy)| {
        // every history starts with a refresh (the prover computes its cache before serving proofs)
        ops.insert(0, POp::Refresh { four_ranges: false });
        PCase { pool_size, ops, legacy }
    })
}
