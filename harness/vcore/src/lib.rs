//! vcore — the common engine of the /verif property-based checks.
//!
//! A check binary builds a [`Check`], registers *sections* (a proptest strategy plus a case function
//! returning a [`Report`]), optionally *enumerations* (exhaustive finite spaces) and *witnesses* (the
//! dedicated reproduction of every open known finding), and finally calls [`Check::finish`], which writes
//! the evidence file and a result file read by the `/verif/check` driver.
//!
//! Every run is a pure function of (working tree, seed, tier): the only source of randomness is the
//! proptest `TestRunner` seeded from `VERIF_SEED`.

use std::cell::RefCell;
use std::collections::{BTreeMap, BTreeSet};
use std::fmt::Debug;
use std::panic::{AssertUnwindSafe, catch_unwind};
use std::path::PathBuf;
use std::sync::Mutex;
use std::sync::atomic::{AtomicBool, Ordering};
use std::time::Instant;

use proptest::strategy::{Strategy, ValueTree};
use proptest::test_runner::{Config, RngAlgorithm, RngSeed, TestCaseError, TestError, TestRng, TestRunner};
use serde::{Serialize, de::DeserializeOwned};
use serde_json::{Value, json};

pub mod known;
pub mod util;

pub use known::KnownFinding;

#[derive(Clone, Copy, Debug, PartialEq, Eq)]
pub enum Tier {
    Quick,
    Thorough,
}

impl Tier {
    pub fn name(&self) -> &'static str {
        match self {
            Tier::Quick => "quick",
            Tier::Thorough => "thorough",
        }
    }
    /// pick a work amount by tier
    pub fn pick(&self, quick: u32, thorough: u32) -> u32 {
        let n = match self {
            Tier::Quick => quick,
            Tier::Thorough => thorough,
        };
        // development aid: VERIF_SCALE=<percent> scales every work amount (never set by the registered commands)
        match std::env::var("VERIF_SCALE").ok().and_then(|s| s.parse::<u64>().ok()) {
            Some(pct) => ((n as u64 * pct / 100).max(1)) as u32,
            None => n,
        }
    }
}

/// Outcome of one case.
#[derive(Clone, Debug)]
pub enum Outcome {
    Pass,
    /// the generated case is outside the property's domain (counted, bounded)
    Discard(String),
    /// the case was steered away from / falls into an open known finding (counted)
    ExcludedKnown(String),
    /// the property is violated. `key` is a narrow, stable signature of the failing class (used to match
    /// known findings); `what` is a human description.
    Violation { key: String, what: String },
}

/// What a case function reports.
#[derive(Clone, Debug)]
pub struct Report {
    pub labels: Vec<String>,
    /// non-trivial by the property's stated rule
    pub nontrivial: bool,
    /// identity of the case for `distinct_nontrivial` (cases with equal shape count once)
    pub shape: String,
    pub outcome: Outcome,
}

impl Report {
    pub fn new() -> Self {
        Report { labels: vec![], nontrivial: false, shape: String::new(), outcome: Outcome::Pass }
    }
    pub fn label(&mut self, l: impl Into<String>) -> &mut Self {
        self.labels.push(l.into());
        self
    }
    pub fn nontrivial(&mut self, shape: impl Into<String>) -> &mut Self {
        self.nontrivial = true;
        self.shape = shape.into();
        self
    }
    /// record a violation (the first one wins)
    pub fn violation(&mut self, key: impl Into<String>, what: impl Into<String>) -> &mut Self {
        if !matches!(self.outcome, Outcome::Violation { .. }) {
            self.outcome = Outcome::Violation { key: key.into(), what: what.into() };
        }
        self
    }
    pub fn discard(&mut self, why: impl Into<String>) -> &mut Self {
        if matches!(self.outcome, Outcome::Pass) {
            self.outcome = Outcome::Discard(why.into());
        }
        self
    }
    pub fn excluded_known(&mut self, key: impl Into<String>) -> &mut Self {
        if matches!(self.outcome, Outcome::Pass) {
            self.outcome = Outcome::ExcludedKnown(key.into());
        }
        self
    }
    pub fn is_violation(&self) -> bool {
        matches!(self.outcome, Outcome::Violation { .. })
    }
}

impl Default for Report {
    fn default() -> Self {
        Self::new()
    }
}

#[derive(Default)]
struct Stats {
    evaluations: u64,
    nontrivial_evals: u64,
    discarded: u64,
    /// why cases were discarded (reason text with digits and quoted parts collapsed), so that a generator whose
    /// domain silently shrinks shows up in the evidence
    discard_reasons: BTreeMap<String, u64>,
    excluded_known: u64,
    distinct: BTreeSet<u64>,
    labels: BTreeMap<String, u64>,
    samples: Vec<Value>,
    sections: BTreeMap<String, Value>,
    known_hits: BTreeMap<String, u64>,
    violations: Vec<ViolationRec>,
    known_lines: Vec<String>,
    inconclusive: Vec<String>,
    exhaustive_parts: Vec<String>,
}

#[derive(Clone, Debug, Serialize)]
struct ViolationRec {
    key: String,
    what: String,
    section: String,
    replay: String,
}

pub struct Check {
    pub id: String,
    pub level: String,
    pub tier: Tier,
    pub seed: u64,
    pub threads: usize,
    rule: String,
    assumptions: Vec<String>,
    replay: Option<(PathBuf, Value)>,
    strict: bool,
    known: Vec<KnownFinding>,
    stats: Mutex<Stats>,
    start: Instant,
    verif_root: PathBuf,
    required_labels: Vec<String>,
    max_samples: usize,
    shrink_iters: u32,
}

thread_local! {
    static LAST_PANIC: RefCell<Option<String>> = const { RefCell::new(None) };
    static QUIET: RefCell<bool> = const { RefCell::new(false) };
}

static HOOK_INSTALLED: AtomicBool = AtomicBool::new(false);

fn install_panic_hook() {
    if HOOK_INSTALLED.swap(true, Ordering::SeqCst) {
        return;
    }
    let default = std::panic::take_hook();
    std::panic::set_hook(Box::new(move |info| {
        let msg = if let Some(s) = info.payload().downcast_ref::<&str>() {
            s.to_string()
        } else if let Some(s) = info.payload().downcast_ref::<String>() {
            s.clone()
        } else {
            "<non-string panic>".to_string()
        };
        let loc = info.location().map(|l| format!("{}:{}", l.file(), l.line())).unwrap_or_default();
        LAST_PANIC.with(|p| *p.borrow_mut() = Some(format!("{msg} @ {loc}")));
        let quiet = QUIET.with(|q| *q.borrow());
        if !quiet {
            default(info);
        }
    }));
}

/// Run `f`, turning a panic of the code under test into `Err(message @ file:line)`.
pub fn catch<R>(f: impl FnOnce() -> R) -> Result<R, String> {
    install_panic_hook();
    let prev = QUIET.with(|q| q.replace(true));
    LAST_PANIC.with(|p| *p.borrow_mut() = None);
    let r = catch_unwind(AssertUnwindSafe(f));
    QUIET.with(|q| *q.borrow_mut() = prev);
    match r {
        Ok(v) => Ok(v),
        Err(_) => Err(LAST_PANIC.with(|p| p.borrow_mut().take()).unwrap_or_else(|| "panic".into())),
    }
}

fn fnv(s: &str) -> u64 {
    let mut h: u64 = 0xcbf29ce484222325;
    for b in s.as_bytes() {
        h ^= *b as u64;
        h = h.wrapping_mul(0x100000001b3);
    }
    h
}

pub fn mix(a: u64, b: u64) -> u64 {
    let mut z = a ^ b.wrapping_mul(0x9E3779B97F4A7C15).rotate_left(17);
    z = (z ^ (z >> 30)).wrapping_mul(0xBF58476D1CE4E5B9);
    z = (z ^ (z >> 27)).wrapping_mul(0x94D049BB133111EB);
    z ^ (z >> 31)
}

pub struct Args {
    pub tier: Tier,
    pub seed: u64,
    pub replay: Option<PathBuf>,
    pub strict: bool,
    pub rest: Vec<String>,
}

pub fn parse_args() -> Args {
    let mut tier = match std::env::var("VERIF_TIER").ok().as_deref() {
        Some("thorough") => Tier::Thorough,
        _ => Tier::Quick,
    };
    let mut seed: u64 = std::env::var("VERIF_SEED")
        .ok()
        .and_then(|s| s.trim().parse::<i128>().ok())
        .map(|v| v as u64)
        .unwrap_or(1);
    let mut replay = None;
    let mut strict = false;
    let mut rest = vec![];
    let mut it = std::env::args().skip(1);
    while let Some(a) = it.next() {
        match a.as_str() {
            "--tier" => {
                tier = match it.next().as_deref() {
                    Some("thorough") => Tier::Thorough,
                    _ => Tier::Quick,
                }
            }
            "--seed" => seed = it.next().and_then(|s| s.parse::<i128>().ok()).map(|v| v as u64).unwrap_or(seed),
            "--replay" => replay = it.next().map(PathBuf::from),
            "--strict" => strict = true,
            _ => rest.push(a),
        }
    }
    Args { tier, seed, replay, strict, rest }
}

impl Check {
    pub fn new(id: &str, level: &str, args: &Args) -> Check {
        install_panic_hook();
        let verif_root = PathBuf::from(std::env::var("VERIF_ROOT").unwrap_or_else(|_| "/verif".into()));
        let known = known::load(&verif_root.join("known_findings.json"), id);
        let replay = args.replay.as_ref().map(|p| {
            let txt = std::fs::read_to_string(p).unwrap_or_else(|e| {
                eprintln!("cannot read replay file {}: {e}", p.display());
                std::process::exit(2)
            });
            let v: Value = serde_json::from_str(&txt).unwrap_or_else(|e| {
                eprintln!("replay file is not JSON: {e}");
                std::process::exit(2)
            });
            (p.clone(), v)
        });
        let threads = std::env::var("VERIF_THREADS")
            .ok()
            .and_then(|s| s.parse().ok())
            .unwrap_or_else(|| std::thread::available_parallelism().map(|n| n.get()).unwrap_or(8).min(16));
        Check {
            id: id.to_string(),
            level: level.to_string(),
            tier: args.tier,
            seed: args.seed,
            threads,
            rule: String::new(),
            assumptions: vec![],
            replay,
            strict: args.strict,
            known,
            stats: Mutex::new(Stats::default()),
            start: Instant::now(),
            verif_root,
            required_labels: vec![],
            max_samples: 12,
            shrink_iters: 1500,
        }
    }

    pub fn rule(&mut self, r: &str) -> &mut Self {
        self.rule = r.to_string();
        self
    }
    pub fn assume(&mut self, a: &str) -> &mut Self {
        self.assumptions.push(a.to_string());
        self
    }
    /// labels that must have been observed at least once, otherwise the run is inconclusive (exit 2)
    pub fn require_label(&mut self, l: &str) -> &mut Self {
        self.required_labels.push(l.to_string());
        self
    }
    pub fn shrink_iters(&mut self, n: u32) -> &mut Self {
        self.shrink_iters = n;
        self
    }
    pub fn is_replay(&self) -> bool {
        self.replay.is_some()
    }
    pub fn scratch_dir(&self) -> PathBuf {
        let d = std::env::temp_dir();
        let _ = std::fs::create_dir_all(&d);
        d
    }

    fn known_open(&self, key: &str) -> Option<&KnownFinding> {
        if self.strict {
            return None;
        }
        self.known.iter().find(|k| k.status == "open" && k.matches(key))
    }

    pub fn has_open_known(&self, key: &str) -> bool {
        self.known.iter().any(|k| k.status == "open" && k.key == key)
    }

    fn record(&self, section: &str, rep: &Report, case_json: impl FnOnce() -> Value) {
        let mut st = self.stats.lock().unwrap();
        st.evaluations += 1;
        for l in &rep.labels {
            *st.labels.entry(l.clone()).or_insert(0) += 1;
        }
        match &rep.outcome {
            Outcome::Discard(why) => {
                st.discarded += 1;
                let mut key: String = why.chars().take_while(|c| *c != ':' && *c != '"' && *c != '`').map(|c| if c.is_ascii_digit() { '#' } else { c }).take(80).collect();
                if st.discard_reasons.len() >= 40 && !st.discard_reasons.contains_key(&key) {
                    key = "(other)".into();
                }
                *st.discard_reasons.entry(key).or_insert(0) += 1;
            }
            Outcome::ExcludedKnown(_) => st.excluded_known += 1,
            _ => {}
        }
        if rep.nontrivial && !matches!(rep.outcome, Outcome::Discard(_)) {
            st.nontrivial_evals += 1;
            let is_new = st.distinct.insert(fnv(&format!("{section}|{}", rep.shape)));
            let max = self.max_samples;
            if is_new && st.samples.len() < max {
                let v = json!({"section": section, "labels": rep.labels, "case": truncate_json(case_json(), 1500)});
                st.samples.push(v);
            }
        }
    }

    fn write_replay(&self, section: &str, key: &str, what: &str, case: Value) -> String {
        let dir = self.verif_root.join("replays").join(&self.id);
        let _ = std::fs::create_dir_all(&dir);
        let body = json!({
            "property": self.id, "section": section, "seed": self.seed, "tier": self.tier.name(),
            "key": key, "what": what, "case": case,
        });
        let txt = serde_json::to_string_pretty(&body).unwrap();
        let name = format!("{}-{:016x}.json", sanitize(key), fnv(&txt));
        let path = dir.join(name);
        let _ = std::fs::write(&path, txt);
        path.display().to_string()
    }

    fn handle_violation(&self, section: &str, key: &str, what: &str, case: Value) {
        if let Some(k) = self.known_open(key) {
            let mut st = self.stats.lock().unwrap();
            *st.known_hits.entry(k.key.clone()).or_insert(0) += 1;
            return;
        }
        let replay = match &self.replay {
            Some((p, _)) => p.display().to_string(),
            None => self.write_replay(section, key, what, case),
        };
        let mut st = self.stats.lock().unwrap();
        if !st.violations.iter().any(|v| v.key == key && v.section == section) {
            st.violations.push(ViolationRec { key: key.into(), what: what.into(), section: section.into(), replay });
        }
    }

    /// The replay tier: committed minimal cases of findings that were repaired (and of open ones) under
    /// `/verif/regressions/<id>/*.json` (same format as a replay file) are evaluated before anything is generated
    /// for the section they belong to. A violation is handled like any other (a repaired defect that returns is
    /// reported; an open known finding is counted as a known hit).
    fn run_regressions<C>(&self, name: &str, f: &(impl Fn(&C) -> Report + Sync))
    where
        C: Debug + Clone + Serialize + DeserializeOwned,
    {
        let dir = self.verif_root.join("regressions").join(&self.id);
        let Ok(rd) = std::fs::read_dir(&dir) else { return };
        let mut files: Vec<PathBuf> = rd.filter_map(|e| e.ok()).map(|e| e.path()).filter(|p| p.extension().is_some_and(|x| x == "json")).collect();
        files.sort();
        for p in files {
            let Ok(txt) = std::fs::read_to_string(&p) else { continue };
            let Ok(v) = serde_json::from_str::<Value>(&txt) else { continue };
            if v.get("section").and_then(|s| s.as_str()) != Some(name) {
                continue;
            }
            let case: C = match serde_json::from_value(v["case"].clone()) {
                Ok(c) => c,
                Err(_) => {
                    let mut st = self.stats.lock().unwrap();
                    *st.labels.entry("regression-case:undecodable".to_string()).or_insert(0) += 1;
                    continue;
                }
            };
            let mut rep = self.eval(f, &case);
            rep.label("regression-case");
            self.record(name, &rep, || v["case"].clone());
            if let Outcome::Violation { key, what } = &rep.outcome {
                self.handle_violation(name, key, &format!("{what} [regression case {}]", p.display()), v["case"].clone());
            }
        }
    }

    /// Evaluate one case through the engine (panic of the case function itself = harness/CUT panic that the
    /// case did not anticipate; it is reported as a violation with key `panic:<location>` so that a crash in
    /// the code under test can never be silently swallowed).
    fn eval<C: Debug>(&self, f: &(impl Fn(&C) -> Report + Sync), case: &C) -> Report {
        match catch(|| f(case)) {
            Ok(r) => r,
            Err(msg) => {
                let mut r = Report::new();
                r.label("uncaught-panic");
                let loc = msg.rsplit(" @ ").next().unwrap_or("").to_string();
                r.violation(format!("panic:{loc}"), format!("panic during case: {msg}"));
                r
            }
        }
    }

    /// A randomized section: `cases` generated inputs (split over the worker threads), each evaluated by `f`.
    /// In replay mode only the section named in the replay file runs, once, on the saved case.
    pub fn section<C, S>(&self, name: &str, make_strategy: impl Fn() -> S + Sync, cases: u32, f: impl Fn(&C) -> Report + Sync)
    where
        C: Debug + Clone + Serialize + DeserializeOwned + Send,
        S: Strategy<Value = C>,
    {
        if let Some((_, rv)) = &self.replay {
            if rv.get("section").and_then(|s| s.as_str()) != Some(name) {
                return;
            }
            let case: C = match serde_json::from_value(rv["case"].clone()) {
                Ok(c) => c,
                Err(e) => {
                    self.inconclusive(format!("replay case does not decode for section {name}: {e}"));
                    return;
                }
            };
            let rep = self.eval(&f, &case);
            self.record(name, &rep, || serde_json::to_value(&case).unwrap_or(Value::Null));
            if let Outcome::Violation { key, what } = &rep.outcome {
                println!("replay: violation key={key} what={what}");
                self.handle_violation(name, key, what, rv["case"].clone());
            } else {
                println!("replay: outcome {:?}", rep.outcome);
            }
            return;
        }
        let t0 = Instant::now();
        let before = self.stats.lock().unwrap().evaluations;
        self.run_regressions(name, &f);
        let threads = self.threads.max(1).min(cases.max(1) as usize);
        let per = cases.div_ceil(threads as u32);
        std::thread::scope(|scope| {
            for t in 0..threads {
                let f = &f;
                let make_strategy = &make_strategy;
                scope.spawn(move || {
                    let seed = mix(mix(self.seed, fnv(name)), t as u64);
                    let strategy = make_strategy();
                    self.run_one_runner(name, &strategy, per, seed, f);
                });
            }
        });
        let mut st = self.stats.lock().unwrap();
        let n = st.evaluations - before;
        st.sections.insert(
            name.to_string(),
            json!({"cases": n, "wall_s": t0.elapsed().as_secs_f64(), "kind": "generated"}),
        );
    }

    fn run_one_runner<C, S>(&self, name: &str, strategy: &S, cases: u32, seed: u64, f: &(impl Fn(&C) -> Report + Sync))
    where
        C: Debug + Clone + Serialize + DeserializeOwned,
        S: Strategy<Value = C>,
    {
        let mut seed_bytes = [0u8; 32];
        for i in 0..4 {
            seed_bytes[i * 8..(i + 1) * 8].copy_from_slice(&mix(seed, i as u64).to_le_bytes());
        }
        let config = Config {
            cases,
            failure_persistence: None,
            max_shrink_iters: self.shrink_iters,
            max_global_rejects: 100_000,
            rng_seed: RngSeed::Fixed(seed),
            ..Config::default()
        };
        let rng = TestRng::from_seed(RngAlgorithm::ChaCha, &seed_bytes);
        let mut runner = TestRunner::new_with_rng(config, rng);
        let failed = std::cell::Cell::new(false);
        let result = runner.run(strategy, |case| {
            let rep = self.eval(f, &case);
            if !failed.get() {
                self.record(name, &rep, || serde_json::to_value(&case).unwrap_or(Value::Null));
            }
            match &rep.outcome {
                Outcome::Violation { key, what } => {
                    if self.known_open(key).is_some() {
                        if !failed.get() {
                            let mut st = self.stats.lock().unwrap();
                            let k = self.known_open(key).unwrap().key.clone();
                            *st.known_hits.entry(k).or_insert(0) += 1;
                        }
                        Ok(())
                    } else {
                        failed.set(true);
                        Err(TestCaseError::fail(format!("{key}: {what}")))
                    }
                }
                _ => Ok(()),
            }
        });
        match result {
            Ok(()) => {}
            Err(TestError::Fail(_, minimal)) => {
                // re-evaluate the shrunk case to obtain its own verdict
                let rep = self.eval(f, &minimal);
                let cj = serde_json::to_value(&minimal).unwrap_or(Value::Null);
                match &rep.outcome {
                    Outcome::Violation { key, what } => self.handle_violation(name, key, what, cj),
                    other => self.inconclusive(format!(
                        "section {name}: shrunk case no longer fails ({other:?}); flaky case function"
                    )),
                }
            }
            Err(TestError::Abort(why)) => self.inconclusive(format!("section {name}: proptest aborted: {why}")),
        }
    }

    /// An exhaustive (or otherwise deterministic) enumeration.
    pub fn enumerate<C>(&self, name: &str, items: impl Iterator<Item = C>, exhaustive: bool, f: impl Fn(&C) -> Report + Sync)
    where
        C: Debug + Clone + Serialize + DeserializeOwned + Send + Sync,
    {
        if let Some((_, rv)) = &self.replay {
            if rv.get("section").and_then(|s| s.as_str()) != Some(name) {
                return;
            }
            if let Ok(case) = serde_json::from_value::<C>(rv["case"].clone()) {
                let rep = self.eval(&f, &case);
                self.record(name, &rep, || rv["case"].clone());
                if let Outcome::Violation { key, what } = &rep.outcome {
                    println!("replay: violation key={key} what={what}");
                    self.handle_violation(name, key, what, rv["case"].clone());
                } else {
                    println!("replay: outcome {:?}", rep.outcome);
                }
            }
            return;
        }
        let t0 = Instant::now();
        let before = self.stats.lock().unwrap().evaluations;
        self.run_regressions(name, &f);
        let items: Vec<C> = items.collect();
        let next = std::sync::atomic::AtomicUsize::new(0);
        std::thread::scope(|scope| {
            for _ in 0..self.threads.max(1) {
                let f = &f;
                let items = &items;
                let next = &next;
                scope.spawn(move || {
                    loop {
                        let i = next.fetch_add(1, Ordering::Relaxed);
                        if i >= items.len() {
                            break;
                        }
                        let case = &items[i];
                        let rep = self.eval(f, case);
                        self.record(name, &rep, || serde_json::to_value(case).unwrap_or(Value::Null));
                        if let Outcome::Violation { key, what } = &rep.outcome {
                            self.handle_violation(name, key, what, serde_json::to_value(case).unwrap_or(Value::Null));
                        }
                    }
                });
            }
        });
        let mut st = self.stats.lock().unwrap();
        let n = st.evaluations - before;
        st.sections.insert(
            name.to_string(),
            json!({"cases": n, "wall_s": t0.elapsed().as_secs_f64(), "kind": if exhaustive {"exhaustive"} else {"enumerated"}}),
        );
        if exhaustive {
            st.exhaustive_parts.push(name.to_string());
        }
    }

    /// The dedicated witness of an open known finding: `still_fails` runs the minimal failing case against the
    /// real code. If it still fails the KNOWN-FINDING line is printed; if not (repaired) nothing is printed.
    /// If the finding is *not* listed and the witness fails, it is an ordinary violation.
    pub fn witness(&self, key: &str, what: &str, still_fails: impl FnOnce() -> bool) {
        if self.replay.is_some() {
            return;
        }
        let fails = match catch(still_fails) {
            Ok(b) => b,
            Err(msg) => {
                self.inconclusive(format!("witness {key} panicked in the harness: {msg}"));
                return;
            }
        };
        {
            let mut st = self.stats.lock().unwrap();
            st.evaluations += 1;
            *st.labels.entry(format!("witness:{key}:{}", if fails { "fails" } else { "holds" })).or_insert(0) += 1;
        }
        if !fails {
            return;
        }
        if let Some(k) = self.known_open(key) {
            let mut st = self.stats.lock().unwrap();
            let line = format!("KNOWN-FINDING: property={} {} [{}]", self.id, k.what, k.key);
            if !st.known_lines.contains(&line) {
                st.known_lines.push(line);
            }
        } else {
            self.handle_violation("witness", key, what, json!({"witness": key}));
        }
    }

    /// a violation established outside of a case function (e.g. a process-level abort pinned by a fuzzer artifact)
    pub fn external_violation(&self, key: &str, what: &str, replay: &str) {
        if self.known_open(key).is_some() {
            let mut st = self.stats.lock().unwrap();
            *st.known_hits.entry(key.to_string()).or_insert(0) += 1;
            return;
        }
        let mut st = self.stats.lock().unwrap();
        st.violations.push(ViolationRec { key: key.into(), what: what.into(), section: "external".into(), replay: replay.into() });
    }

    pub fn inconclusive(&self, why: String) {
        self.stats.lock().unwrap().inconclusive.push(why);
    }

    pub fn note_section(&self, name: &str, v: Value) {
        self.stats.lock().unwrap().sections.insert(name.to_string(), v);
    }

    pub fn label_count(&self, l: &str) -> u64 {
        self.stats.lock().unwrap().labels.get(l).copied().unwrap_or(0)
    }

    /// Write evidence + result files, print the interface lines, return the exit code.
    pub fn finish(self) -> i32 {
        let wall = self.start.elapsed().as_secs_f64();
        let replaying = self.replay.is_some();
        let mut st = self.stats.into_inner().unwrap();
        if !replaying {
            for l in &self.required_labels {
                if st.labels.get(l).copied().unwrap_or(0) == 0 {
                    st.inconclusive.push(format!("generator never reached required class '{l}'"));
                }
            }
            if st.evaluations > 0 && st.discarded * 10 > st.evaluations * 3 {
                st.inconclusive.push(format!("too many discards: {} of {}", st.discarded, st.evaluations));
            }
        }
        // known findings hit by random search but whose witness was not run: still print the line
        for (k, n) in st.known_hits.clone() {
            if let Some(kf) = self.known.iter().find(|x| x.key == k) {
                let line = format!("KNOWN-FINDING: property={} {} [{}]", self.id, kf.what, kf.key);
                if *(&n) > 0 && !st.known_lines.contains(&line) {
                    st.known_lines.push(line);
                }
            }
        }
        let exhaustive = !st.exhaustive_parts.is_empty();
        let evidence = json!({
            "property_id": self.id,
            "tier": self.tier.name(),
            "seed": (self.seed & 0x7fff_ffff_ffff_ffff) as i64,
            "level": self.level,
            "wall_s": wall,
            "violations": st.violations.len(),
            "assumptions": self.assumptions,
            "coverage": {
                "evaluations": st.evaluations,
                "distinct_nontrivial": st.distinct.len(),
                "nontrivial_evaluations": st.nontrivial_evals,
                "rule": self.rule,
                "samples": st.samples,
                "label_histogram": st.labels,
                "discarded": st.discarded,
                "discard_reasons": st.discard_reasons,
                "excluded_known": st.excluded_known,
                "known_finding_hits": st.known_hits,
                "sections": st.sections,
                "exhaustive": exhaustive,
                "exhaustive_sections": st.exhaustive_parts,
                "inconclusive": st.inconclusive,
                "violations": st.violations,
                "known_finding_lines": st.known_lines,
            }
        });
        if !replaying {
            let dir = self.verif_root.join("evidence");
            let _ = std::fs::create_dir_all(&dir);
            let path = dir.join(format!("{}.json", self.id));
            if let Err(e) = std::fs::write(&path, serde_json::to_string_pretty(&evidence).unwrap()) {
                eprintln!("cannot write evidence {}: {e}", path.display());
            }
        }
        let code = if !st.violations.is_empty() {
            1
        } else if !st.inconclusive.is_empty() {
            2
        } else {
            0
        };
        let result = json!({
            "property": self.id,
            "exit": code,
            "violations": st.violations,
            "known_lines": st.known_lines,
            "inconclusive": st.inconclusive,
            "evaluations": st.evaluations,
            "distinct_nontrivial": st.distinct.len(),
            "wall_s": wall,
        });
        if let Ok(p) = std::env::var("VERIF_RESULT_FILE") {
            let _ = std::fs::write(p, serde_json::to_string_pretty(&result).unwrap());
        } else {
            // stand-alone use: print the interface lines ourselves
            for l in &st.known_lines {
                println!("{l}");
            }
            for v in &st.violations {
                println!("VIOLATION property={} replay={}", self.id, v.replay);
                println!("  key={} section={} what={}", v.key, v.section, v.what);
            }
            for i in &st.inconclusive {
                println!("INCONCLUSIVE: {i}");
            }
            println!(
                "{}: evaluations={} distinct_nontrivial={} wall={:.1}s exit={}",
                self.id,
                st.evaluations,
                st.distinct.len(),
                wall,
                code
            );
        }
        code
    }
}

fn sanitize(s: &str) -> String {
    s.chars().map(|c| if c.is_ascii_alphanumeric() || c == '-' || c == '_' { c } else { '_' }).take(60).collect()
}

fn truncate_json(v: Value, max: usize) -> Value {
    let s = v.to_string();
    if s.len() <= max {
        v
    } else {
        let mut cut = max;
        while !s.is_char_boundary(cut) {
            cut -= 1;
        }
        json!({"truncated_json": format!("{}…", &s[..cut]), "full_len": s.len()})
    }
}

/// Generate one value from a strategy with a fixed seed (for fixtures derived deterministically).
pub fn sample_one<S: Strategy>(strategy: &S, seed: u64) -> S::Value {
    let mut seed_bytes = [0u8; 32];
    for i in 0..4 {
        seed_bytes[i * 8..(i + 1) * 8].copy_from_slice(&mix(seed, i as u64).to_le_bytes());
    }
    let rng = TestRng::from_seed(RngAlgorithm::ChaCha, &seed_bytes);
    let mut runner = TestRunner::new_with_rng(Config::default(), rng);
    strategy.new_tree(&mut runner).expect("strategy").current()
}

/// Monotone index map (shrinks well): maps a u16 onto 0..len
pub fn pick_index(raw: u16, len: usize) -> usize {
    if len == 0 {
        return 0;
    }
    ((raw as usize) * len) >> 16
}
