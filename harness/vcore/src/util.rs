//! small helpers shared by the check binaries
use std::path::PathBuf;

/// A per-case scratch directory under TMPDIR (the driver points TMPDIR into /verif/harness/target/scratch).
pub struct Scratch(pub PathBuf);

impl Scratch {
    pub fn new(tag: &str) -> Scratch {
        use std::sync::atomic::{AtomicU64, Ordering};
        static N: AtomicU64 = AtomicU64::new(0);
        let n = N.fetch_add(1, Ordering::Relaxed);
        let p = std::env::temp_dir().join(format!("vf-{tag}-{}-{n}", std::process::id()));
        let _ = std::fs::remove_dir_all(&p);
        std::fs::create_dir_all(&p).expect("scratch dir");
        Scratch(p)
    }
    pub fn path(&self) -> &std::path::Path {
        &self.0
    }
}

impl Drop for Scratch {
    fn drop(&mut self) {
        let _ = std::fs::remove_dir_all(&self.0);
    }
}

pub fn hex(b: &[u8]) -> String {
    b.iter().map(|x| format!("{x:02x}")).collect()
}
