//! known_findings.json: committed, read-only at run time.
//!
//! ```json
//! { "findings": [ {"property":"C08","key":"taylor-error-factor","status":"open","what":"...","matcher":"..."} ],
//!   "fixed": [ "fixed: property=C01 <commit> <what failed>" ] }
//! ```
//! `key` is the exact signature the check computes for the failing class. An entry whose key ends with `*`
//! matches by prefix (used only where the signature carries a position, e.g. a crash-point occurrence).

use serde::Deserialize;
use std::path::Path;

#[derive(Clone, Debug, Deserialize)]
pub struct KnownFinding {
    pub property: String,
    pub key: String,
    #[serde(default = "open")]
    pub status: String,
    pub what: String,
    #[serde(default)]
    pub matcher: String,
}

fn open() -> String {
    "open".into()
}

impl KnownFinding {
    pub fn matches(&self, key: &str) -> bool {
        if let Some(prefix) = self.key.strip_suffix('*') {
            key.starts_with(prefix)
        } else {
            self.key == key
        }
    }
}

#[derive(Deserialize)]
struct File {
    #[serde(default)]
    findings: Vec<KnownFinding>,
}

pub fn load(path: &Path, property: &str) -> Vec<KnownFinding> {
    let Ok(txt) = std::fs::read_to_string(path) else {
        return vec![];
    };
    match serde_json::from_str::<File>(&txt) {
        Ok(f) => f.findings.into_iter().filter(|k| k.property == property).collect(),
        Err(e) => {
            eprintln!("known_findings.json does not parse: {e}");
            std::process::exit(2);
        }
    }
}
