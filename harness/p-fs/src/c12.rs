//! C12 — The database digest depends only on the immutable files up to the beacon.
//!
//! A *canonical database* (immutable trios `first..first+n`, contents given as (seed, len) pairs) is written to disk in
//! two or three *materialisations* that differ in creation order, in which directory is handed to the digester, in
//! extra files (non-immutable names inside `immutable/`, look-alikes in sub-directories and beside it, trios beyond the
//! beacon, edits of files beyond the beacon) and in the digest-cache history (none / memory / JSON file; cold, warm
//! from the same / a longer / a shorter run, partially filled, entries for vanished names, corrupt file, database
//! grown between runs). Every computation — the history ones and the final one — is compared with a harness-side
//! restatement (own extension filter, own (number, name) order, SHA-256 per file, own Merkle-mountain-range root over the
//! ASCII hex digests with Blake2s-256), and the final results are compared across materialisations.
//! A second section perturbs one file of a cache-less database (flip / truncate / append / delete / rename / overwrite /
//! swap; covered or not covered by the beacon) and checks that the root changes exactly when the covered
//! (name → content) map changed.

use std::collections::{BTreeMap, BTreeSet};
use std::path::{Path, PathBuf};
use std::sync::Arc;

use blake2::Blake2s256;
use mithril_cardano_node_internal_database::digesters::cache::{
    ImmutableFileDigestCacheProvider, JsonImmutableFileDigestCacheProvider, MemoryImmutableFileDigestCacheProvider,
};
use mithril_cardano_node_internal_database::digesters::{
    CardanoImmutableDigester, ImmutableDigester, ImmutableDigesterError,
};
use mithril_cardano_node_internal_database::signable_builder::CardanoDatabaseSignableBuilder;
use mithril_common::entities::{CardanoDbBeacon, ProtocolMessagePartKey};
use mithril_common::signable_builder::SignableBuilder;
use proptest::prelude::*;
use serde::{Deserialize, Serialize};
use sha2::{Digest, Sha256};
use vcore::util::Scratch;
use vcore::{Args, Check, Report, pick_index};

// ---------------------------------------------------------------------------------------------------------------
// helpers shared with c10.rs
// ---------------------------------------------------------------------------------------------------------------

pub(crate) const EXTS: [&str; 3] = ["chunk", "primary", "secondary"];

/// File content given intensionally, so that replay files stay small even for large files.
#[derive(Clone, Debug, Serialize, Deserialize, PartialEq, Eq, PartialOrd, Ord)]
pub(crate) struct Content {
    pub seed: u64,
    pub len: u32,
}

impl Content {
    /// deterministic byte stream of `seed` (equal seeds: one content is a prefix of the other)
    pub fn bytes(&self) -> Vec<u8> {
        let mut out = Vec::with_capacity(self.len as usize + 8);
        let mut s = self.seed ^ 0x5851_f42d_4c95_7f2d;
        while out.len() < self.len as usize {
            s = s.wrapping_add(0x9E37_79B9_7F4A_7C15);
            let mut z = s;
            z = (z ^ (z >> 30)).wrapping_mul(0xBF58_476D_1CE4_E5B9);
            z = (z ^ (z >> 27)).wrapping_mul(0x94D0_49BB_1331_11EB);
            z ^= z >> 31;
            out.extend_from_slice(&z.to_le_bytes());
        }
        out.truncate(self.len as usize);
        out
    }
}

pub(crate) fn content_strategy() -> impl Strategy<Value = Content> {
    let seed = prop_oneof![3 => 0u64..6, 2 => any::<u64>()];
    let len = prop_oneof![
        3 => Just(0u32),
        24 => 0u32..=200,
        6 => prop_oneof![Just(1u32), Just(7u32), Just(64u32)],
        1 => 4090u32..4100,
        1 => 8185u32..8200,
        1 => 65530u32..65545,
        1 => 131070u32..140000,
    ];
    (seed, len).prop_map(|(seed, len)| Content { seed, len })
}

/// small contents only (for databases where many files are rewritten per case)
pub(crate) fn small_content_strategy() -> impl Strategy<Value = Content> {
    let seed = prop_oneof![3 => 0u64..6, 2 => any::<u64>()];
    let len = prop_oneof![2 => Just(0u32), 22 => 0u32..=200, 8 => prop_oneof![Just(1u32), Just(7u32), Just(64u32)], 1 => 8185u32..8200];
    (seed, len).prop_map(|(seed, len)| Content { seed, len })
}

pub(crate) fn sha256_hex(b: &[u8]) -> String {
    hex::encode(Sha256::digest(b))
}

fn blake2s(l: &[u8], r: &[u8]) -> Vec<u8> {
    let mut h = Blake2s256::new();
    h.update(l);
    h.update(r);
    h.finalize().to_vec()
}

fn perfect(leaves: &[Vec<u8>]) -> Vec<u8> {
    if leaves.len() == 1 {
        return leaves[0].clone();
    }
    let (l, r) = leaves.split_at(leaves.len() / 2);
    blake2s(&perfect(l), &perfect(r))
}

/// Root of the Merkle mountain range over `leaves` (the ASCII bytes of each string), restated from the MMR
/// definition: perfect binary trees for every 1-bit of the leaf count (largest first), peaks bagged from the right with
/// H(right ‖ left); a single leaf is its own root. Returned as hex. `None` for no leaves.
pub(crate) fn mmr_root_hex<S: AsRef<str>>(leaves: &[S]) -> Option<String> {
    if leaves.is_empty() {
        return None;
    }
    let raw: Vec<Vec<u8>> = leaves.iter().map(|s| s.as_ref().as_bytes().to_vec()).collect();
    let n = raw.len();
    let mut peaks = vec![];
    let mut off = 0usize;
    for bit in (0..usize::BITS).rev() {
        let size = 1usize << bit;
        if n & size != 0 {
            peaks.push(perfect(&raw[off..off + size]));
            off += size;
        }
    }
    while peaks.len() > 1 {
        let right = peaks.pop().unwrap();
        let left = peaks.pop().unwrap();
        peaks.push(blake2s(&right, &left));
    }
    Some(hex::encode(peaks.pop().unwrap()))
}

/// golden vector of the repository's merkle tree tests + structural spot checks
pub(crate) fn mmr_self_test() -> Result<(), String> {
    let g = mmr_root_hex(&["golden-1", "golden-2", "golden-3", "golden-4", "golden-5"]).unwrap();
    if g != "3bbced153528697ecde7345a22e50115306478353619411523e804f2323fd921" {
        return Err(format!("harness MMR does not reproduce the golden root: {g}"));
    }
    if mmr_root_hex(&["ab"]).unwrap() != hex::encode("ab") {
        return Err("single leaf root".into());
    }
    Ok(())
}

/// own parse of an immutable file name: `<decimal>.<chunk|primary|secondary>`; None = not an immutable file.
/// (names with an immutable extension and a non-numeric stem are outside the domain and never generated)
pub(crate) fn parse_immutable_name(name: &str) -> Option<(u64, &str)> {
    let (stem, ext) = name.rsplit_once('.')?;
    if stem.is_empty() || !EXTS.contains(&ext) || !stem.bytes().all(|b| b.is_ascii_digit()) {
        return None;
    }
    stem.parse::<u64>().ok().map(|n| (n, ext))
}

pub(crate) fn canonical_name(number: u64, ext: usize) -> String {
    format!("{number:05}.{}", EXTS[ext])
}

pub(crate) fn discard_logger() -> slog::Logger {
    slog::Logger::root(slog::Discard, slog::o!())
}

pub(crate) type Model = BTreeMap<String, Vec<u8>>;

/// (number, name, sha256 hex) of the immutable files selected by `pred`, in (number, name) order
pub(crate) fn ref_entries(model: &Model, pred: impl Fn(u64) -> bool) -> Vec<(u64, String, String)> {
    let mut v: Vec<(u64, String, String)> = model
        .iter()
        .filter_map(|(name, bytes)| {
            let (n, _) = parse_immutable_name(name)?;
            pred(n).then(|| (n, name.clone(), sha256_hex(bytes)))
        })
        .collect();
    v.sort_by(|a, b| (a.0, &a.1).cmp(&(b.0, &b.1)));
    v
}

#[derive(Clone, Debug, PartialEq, Eq)]
pub(crate) enum Outcome {
    Root(String),
    NotEnough,
    Other(String),
}

/// the statement, restated: root over the files numbered <= beacon; the beacon's own number must be present
pub(crate) fn ref_root(model: &Model, beacon: u64) -> Outcome {
    let e = ref_entries(model, |n| n <= beacon);
    match e.last() {
        None => Outcome::NotEnough,
        Some(l) if l.0 < beacon => Outcome::NotEnough,
        Some(_) => {
            let leaves: Vec<&str> = e.iter().map(|x| x.2.as_str()).collect();
            Outcome::Root(mmr_root_hex(&leaves).unwrap())
        }
    }
}

pub(crate) fn new_runtime() -> tokio::runtime::Runtime {
    tokio::runtime::Builder::new_current_thread().enable_all().build().expect("tokio runtime")
}

pub(crate) fn cut_root(
    rt: &tokio::runtime::Runtime,
    digester: &CardanoImmutableDigester,
    dir: &Path,
    beacon: u64,
) -> Outcome {
    match rt.block_on(digester.compute_merkle_tree(dir, &CardanoDbBeacon::new(1, beacon))) {
        Ok(tree) => match tree.compute_root() {
            Ok(r) => Outcome::Root(r.to_hex()),
            Err(e) => Outcome::Other(format!("compute_root: {e:?}")),
        },
        Err(ImmutableDigesterError::NotEnoughImmutable { .. }) => Outcome::NotEnough,
        Err(e) => Outcome::Other(format!("{e:?}")),
    }
}

pub(crate) fn splitmix(s: &mut u64) -> u64 {
    *s = s.wrapping_add(0x9E37_79B9_7F4A_7C15);
    let mut z = *s;
    z = (z ^ (z >> 30)).wrapping_mul(0xBF58_476D_1CE4_E5B9);
    z = (z ^ (z >> 27)).wrapping_mul(0x94D0_49BB_1331_11EB);
    z ^ (z >> 31)
}

pub(crate) fn shuffle<T>(v: &mut [T], seed: u64) {
    let mut s = seed;
    for i in (1..v.len()).rev() {
        let j = (splitmix(&mut s) % (i as u64 + 1)) as usize;
        v.swap(i, j);
    }
}

// ---------------------------------------------------------------------------------------------------------------
// case description
// ---------------------------------------------------------------------------------------------------------------

#[derive(Clone, Debug, Serialize, Deserialize)]
pub(crate) struct DbSpec {
    /// number of the first trio
    pub first: u64,
    /// trio i has number first + i; [chunk, primary, secondary]
    pub trios: Vec<[Content; 3]>,
}

impl DbSpec {
    pub fn last(&self) -> u64 {
        self.first + self.trios.len() as u64 - 1
    }
    pub fn files(&self) -> Vec<(String, Content)> {
        let mut v = vec![];
        for (i, t) in self.trios.iter().enumerate() {
            for (e, c) in t.iter().enumerate() {
                v.push((canonical_name(self.first + i as u64, e), c.clone()));
            }
        }
        v
    }
}

pub(crate) fn db_strategy(max_trios: usize, small: bool) -> impl Strategy<Value = DbSpec> {
    let trio = if small {
        prop::array::uniform3(small_content_strategy()).boxed()
    } else {
        prop::array::uniform3(content_strategy()).boxed()
    };
    (prop::collection::vec(trio, 1..=max_trios), prop_oneof![3 => Just(0u8), 2 => Just(1u8), 3 => Just(2u8)], any::<u16>())
        .prop_map(|(trios, kind, raw)| {
            let n = trios.len();
            let first = match kind {
                0 => 0,
                1 => 1 + pick_index(raw, 30) as u64,
                // straddle the 99999 -> 100000 boundary where the name order and the number order differ
                _ => 100_000 - (1 + pick_index(raw, n)) as u64,
            };
            DbSpec { first, trios }
        })
}

#[derive(Clone, Debug, Serialize, Deserialize)]
enum Order {
    Forward,
    Reverse,
    ByExtension,
    Shuffled(u64),
}

#[derive(Clone, Debug, Serialize, Deserialize)]
enum PassDir {
    DbDir,
    ImmutableDir,
    GrandParent,
}

const IN_IMMUTABLE_NAMES: [&str; 12] = [
    "README",
    "00001.chunk.bak",
    "00001.tmp",
    "00002.primary~",
    "clean",
    ".DS_Store",
    "00003",
    "chunk",
    "00001.CHUNK",
    "00001.chunks",
    ".chunk",
    "99999.secondary.part",
];

#[derive(Clone, Debug, Serialize, Deserialize)]
enum Extra {
    /// a regular file inside immutable/ whose name is not an immutable file name
    InImmutable { name: u8, content: Content },
    /// immutable/<sub>/<canonical-looking name> (must be ignored: depth 2)
    SubdirLookalike { trio: u16, content: Content },
    /// things beside immutable/: 0 ledger+volatile, 1 protocolMagicId, 2 a *file* named `immutable` inside ledger/,
    /// 3 `immutable.bak/` with look-alikes, 4 a look-alike at the db root, 5 `immutables/` + `Immutable/` directories
    Beside { kind: u8, content: Content },
    /// a (partial) trio beyond the last canonical one: number = last + off, files per mask
    Beyond { off: u8, mask: u8, content: Content },
}

#[derive(Clone, Debug, Serialize, Deserialize)]
enum BeyondEdit {
    /// delete / rewrite a canonical file whose number is > the final beacon (index among those files)
    Delete { file: u16 },
    Rewrite { file: u16, content: Content },
}

#[derive(Clone, Debug, Serialize, Deserialize)]
enum CacheSpec {
    None,
    Memory,
    /// JSON file: 0 absent, 1 `{}`, 2 corrupt
    Json { initial: u8 },
}

#[derive(Clone, Debug, Serialize, Deserialize)]
enum PreOp {
    /// make at least `grow` trios visible, then compute at a beacon among the visible ones (`beyond`: one past them)
    Compute { grow: u16, beacon: u16, beyond: bool },
    /// store the correct digests of a subset of the visible immutable files (partially filled cache)
    Fill { mask: u64 },
    /// store entries for names that do not exist on disk
    StaleNames { n: u8 },
}

#[derive(Clone, Debug, Serialize, Deserialize)]
struct Mat {
    order: Order,
    pass: PassDir,
    extras: Vec<Extra>,
    beyond_edits: Vec<BeyondEdit>,
    cache: CacheSpec,
    /// trios visible before the first history operation (raw index)
    initial_visible: u16,
    ops: Vec<PreOp>,
}

#[derive(Clone, Debug, Serialize, Deserialize)]
struct HistCase {
    db: DbSpec,
    final_beacon: u16,
    mats: Vec<Mat>,
}

#[derive(Clone, Debug, Serialize, Deserialize)]
enum Pert {
    Flip { file: u16, pos: u16, xor: u8 },
    Truncate { file: u16, newlen: u16 },
    Append { file: u16, extra: Vec<u8> },
    Delete { file: u16 },
    /// rename to a non-immutable name (0), to a number beyond the beacon (1)
    RenameOut { file: u16, kind: u8 },
    /// rename a covered file over another covered file
    RenameOver { file: u16, onto: u16 },
    SwapContents { a: u16, b: u16 },
    ReplaceFresh { file: u16, content: Content },
    /// every file carrying the beacon's own number disappears (the documented NotEnoughImmutable case)
    DeleteBeaconTrio,
    // ---- perturbations of files NOT covered by the beacon: the root must not move
    UncoveredFlip { file: u16, pos: u16, xor: u8 },
    UncoveredDelete { file: u16 },
    UncoveredAdd { extra: Extra },
}

#[derive(Clone, Debug, Serialize, Deserialize)]
struct PertCase {
    db: DbSpec,
    beacon: u16,
    order: Order,
    pass: PassDir,
    extras: Vec<Extra>,
    pert: Pert,
}

// ---------------------------------------------------------------------------------------------------------------
// strategies
// ---------------------------------------------------------------------------------------------------------------

fn order_strategy() -> impl Strategy<Value = Order> {
    prop_oneof![
        Just(Order::Forward),
        Just(Order::Reverse),
        Just(Order::ByExtension),
        any::<u64>().prop_map(Order::Shuffled),
    ]
}

fn pass_strategy() -> impl Strategy<Value = PassDir> {
    prop_oneof![3 => Just(PassDir::DbDir), 2 => Just(PassDir::ImmutableDir), 1 => Just(PassDir::GrandParent)]
}

fn extra_strategy() -> impl Strategy<Value = Extra> {
    let c = small_content_strategy;
    prop_oneof![
        3 => (0u8..IN_IMMUTABLE_NAMES.len() as u8, c()).prop_map(|(name, content)| Extra::InImmutable { name, content }),
        1 => (any::<u16>(), c()).prop_map(|(trio, content)| Extra::SubdirLookalike { trio, content }),
        3 => (0u8..7, c()).prop_map(|(kind, content)| Extra::Beside { kind, content }),
        3 => (1u8..=12, 1u8..8, c()).prop_map(|(off, mask, content)| Extra::Beyond { off, mask, content }),
    ]
}

fn mat_strategy() -> impl Strategy<Value = Mat> {
    let beyond_edit = prop_oneof![
        any::<u16>().prop_map(|file| BeyondEdit::Delete { file }),
        (any::<u16>(), small_content_strategy()).prop_map(|(file, content)| BeyondEdit::Rewrite { file, content }),
    ];
    let cache = prop_oneof![
        2 => Just(CacheSpec::None),
        4 => Just(CacheSpec::Memory),
        5 => prop_oneof![4 => Just(0u8), 1 => Just(1u8), 1 => Just(2u8)].prop_map(|initial| CacheSpec::Json { initial }),
    ];
    let op = prop_oneof![
        6 => (any::<u16>(), prop_oneof![2 => Just(u16::MAX), 3 => any::<u16>()], prop::bool::weighted(0.06))
            .prop_map(|(grow, beacon, beyond)| PreOp::Compute { grow, beacon, beyond }),
        2 => any::<u64>().prop_map(|mask| PreOp::Fill { mask }),
        1 => (1u8..5).prop_map(|n| PreOp::StaleNames { n }),
    ];
    (
        order_strategy(),
        pass_strategy(),
        prop::collection::vec(extra_strategy(), 0..4),
        prop::collection::vec(beyond_edit, 0..3),
        cache,
        prop_oneof![2 => Just(u16::MAX), 1 => any::<u16>()],
        prop::collection::vec(op, 0..5),
    )
        .prop_map(|(order, pass, extras, beyond_edits, cache, initial_visible, ops)| Mat {
            order,
            pass,
            extras,
            beyond_edits,
            cache,
            initial_visible,
            ops,
        })
}

fn hist_strategy() -> impl Strategy<Value = HistCase> {
    (
        db_strategy(10, false),
        prop_oneof![2 => Just(u16::MAX), 3 => any::<u16>()],
        prop::collection::vec(mat_strategy(), 2..=3),
    )
        .prop_map(|(db, final_beacon, mats)| HistCase { db, final_beacon, mats })
}

fn pert_strategy() -> impl Strategy<Value = PertCase> {
    let f = any::<u16>;
    let p = || prop_oneof![1 => Just(u16::MAX), 4 => any::<u16>()];
    let pert = prop_oneof![
        1 => Just(Pert::DeleteBeaconTrio),
        4 => (f(), p(), 1u8..=255).prop_map(|(file, pos, xor)| Pert::Flip { file, pos, xor }),
        2 => (f(), p()).prop_map(|(file, newlen)| Pert::Truncate { file, newlen }),
        2 => (f(), prop::collection::vec(any::<u8>(), 1..4)).prop_map(|(file, extra)| Pert::Append { file, extra }),
        2 => f().prop_map(|file| Pert::Delete { file }),
        2 => (f(), 0u8..2).prop_map(|(file, kind)| Pert::RenameOut { file, kind }),
        2 => (f(), f()).prop_map(|(file, onto)| Pert::RenameOver { file, onto }),
        2 => (f(), f()).prop_map(|(a, b)| Pert::SwapContents { a, b }),
        1 => (f(), small_content_strategy()).prop_map(|(file, content)| Pert::ReplaceFresh { file, content }),
        2 => (f(), f(), 1u8..=255).prop_map(|(file, pos, xor)| Pert::UncoveredFlip { file, pos, xor }),
        1 => f().prop_map(|file| Pert::UncoveredDelete { file }),
        2 => extra_strategy().prop_map(|extra| Pert::UncoveredAdd { extra }),
    ];
    (
        db_strategy(8, false),
        prop_oneof![1 => Just(u16::MAX), 2 => any::<u16>()],
        order_strategy(),
        pass_strategy(),
        prop::collection::vec(extra_strategy(), 0..3),
        pert,
    )
        .prop_map(|(db, beacon, order, pass, extras, pert)| PertCase { db, beacon, order, pass, extras, pert })
}

// ---------------------------------------------------------------------------------------------------------------
// materialisation on disk + model
// ---------------------------------------------------------------------------------------------------------------

struct Disk {
    /// what is handed to the digester
    pass_dir: PathBuf,
    db_dir: PathBuf,
    imm_dir: PathBuf,
    /// regular files directly inside immutable/ (name -> bytes): the harness' model of the directory
    model: Model,
}

impl Disk {
    fn new(root: &Path, pass: &PassDir) -> Disk {
        let db_dir = match pass {
            PassDir::GrandParent => root.join("node").join("db"),
            _ => root.join("db"),
        };
        let imm_dir = db_dir.join("immutable");
        std::fs::create_dir_all(&imm_dir).expect("mkdir immutable");
        let pass_dir = match pass {
            PassDir::DbDir => db_dir.clone(),
            PassDir::ImmutableDir => imm_dir.clone(),
            PassDir::GrandParent => root.to_path_buf(),
        };
        Disk { pass_dir, db_dir, imm_dir, model: Model::new() }
    }

    fn write(&mut self, name: &str, bytes: Vec<u8>) {
        std::fs::write(self.imm_dir.join(name), &bytes).expect("write immutable file");
        self.model.insert(name.to_string(), bytes);
    }

    fn remove(&mut self, name: &str) {
        std::fs::remove_file(self.imm_dir.join(name)).expect("remove file");
        self.model.remove(name);
    }

    fn rename(&mut self, from: &str, to: &str) {
        std::fs::rename(self.imm_dir.join(from), self.imm_dir.join(to)).expect("rename");
        let b = self.model.remove(from).expect("model has file");
        self.model.insert(to.to_string(), b);
    }

    /// extras that live outside immutable/ or below it (never part of the model)
    fn write_outside(&self, extra: &Extra, db: &DbSpec) {
        match extra {
            Extra::SubdirLookalike { trio, content } => {
                let d = self.imm_dir.join("backup");
                std::fs::create_dir_all(&d).unwrap();
                let n = db.first + pick_index(*trio, db.trios.len()) as u64;
                for e in 0..3 {
                    std::fs::write(d.join(canonical_name(n, e)), content.bytes()).unwrap();
                }
            }
            Extra::Beside { kind, content } => {
                let b = content.bytes();
                let db_dir = &self.db_dir;
                // 6 (only when the database directory itself is handed over, i.e. `<db>/immutable` exists directly below
                // it): other directories NAMED `immutable` elsewhere in the tree, holding look-alike trios
                let kind = if kind % 7 == 6 && self.pass_dir != self.db_dir { 0 } else { kind % 7 };
                match kind {
                    6 => {
                        for place in ["ledger", "aaa", "zzz", ".snapshots", "immutable", "immutable/x"] {
                            let d = db_dir.join(place).join("immutable");
                            if std::fs::create_dir_all(&d).is_err() {
                                continue; // another extra put a FILE of that name there
                            }
                            for n in db.first..=db.last() {
                                for e in 0..3 {
                                    std::fs::write(d.join(canonical_name(n, e)), &b).unwrap();
                                }
                            }
                        }
                    }
                    0 => {
                        std::fs::create_dir_all(db_dir.join("ledger")).unwrap();
                        std::fs::create_dir_all(db_dir.join("volatile")).unwrap();
                        std::fs::write(db_dir.join("ledger").join("437"), &b).unwrap();
                        std::fs::write(db_dir.join("volatile").join("blocks-0.dat"), &b).unwrap();
                    }
                    1 => std::fs::write(db_dir.join("protocolMagicId"), &b).unwrap(),
                    2 => {
                        std::fs::create_dir_all(db_dir.join("ledger")).unwrap();
                        let _ = std::fs::write(db_dir.join("ledger").join("immutable"), &b); // (may already be a directory)
                    }
                    3 => {
                        let d = db_dir.join("immutable.bak");
                        std::fs::create_dir_all(&d).unwrap();
                        std::fs::write(d.join(canonical_name(db.first, 0)), &b).unwrap();
                        std::fs::write(d.join(canonical_name(db.last(), 2)), &b).unwrap();
                    }
                    4 => std::fs::write(db_dir.join(canonical_name(db.first, 0)), &b).unwrap(),
                    _ => {
                        for n in ["immutables", "Immutable"] {
                            let d = db_dir.join(n);
                            std::fs::create_dir_all(&d).unwrap();
                            std::fs::write(d.join(canonical_name(db.first, 1)), &b).unwrap();
                        }
                    }
                }
            }
            _ => {}
        }
    }
}

/// the files an extra puts directly inside immutable/
fn extra_files(extra: &Extra, db: &DbSpec) -> Vec<(String, Vec<u8>)> {
    match extra {
        Extra::InImmutable { name, content } => {
            vec![(IN_IMMUTABLE_NAMES[*name as usize % IN_IMMUTABLE_NAMES.len()].to_string(), content.bytes())]
        }
        Extra::Beyond { off, mask, content } => {
            let n = db.last() + (*off).max(1) as u64;
            (0..3)
                .filter(|e| mask & (1 << e) != 0)
                .map(|e| {
                    let c = Content { seed: content.seed.wrapping_add(e as u64), len: content.len };
                    (canonical_name(n, e), c.bytes())
                })
                .collect()
        }
        _ => vec![],
    }
}

fn extra_class(extra: &Extra) -> &'static str {
    match extra {
        Extra::InImmutable { .. } => "non-immutable-name",
        Extra::SubdirLookalike { .. } => "subdir-lookalike",
        Extra::Beside { kind, .. } if kind % 7 == 6 => "other-directories-named-immutable",
        Extra::Beside { .. } => "beside",
        Extra::Beyond { .. } => "beyond-last",
    }
}

fn apply_order(files: &mut Vec<(String, Vec<u8>)>, order: &Order) {
    files.sort_by(|a, b| a.0.cmp(&b.0));
    match order {
        Order::Forward => {}
        Order::Reverse => files.reverse(),
        Order::ByExtension => files.sort_by(|a, b| {
            let ea = a.0.rsplit('.').next().unwrap_or("").to_string();
            let eb = b.0.rsplit('.').next().unwrap_or("").to_string();
            (ea, &a.0).cmp(&(eb, &b.0))
        }),
        Order::Shuffled(seed) => shuffle(files, *seed),
    }
}

fn order_class(o: &Order) -> &'static str {
    match o {
        Order::Forward => "forward",
        Order::Reverse => "reverse",
        Order::ByExtension => "by-extension",
        Order::Shuffled(_) => "shuffled",
    }
}

fn pass_class(p: &PassDir) -> &'static str {
    match p {
        PassDir::DbDir => "db-dir",
        PassDir::ImmutableDir => "immutable-dir",
        PassDir::GrandParent => "grand-parent",
    }
}

fn db_labels(rep: &mut Report, db: &DbSpec) {
    if db.first < 100_000 && db.last() >= 100_000 {
        rep.label("db:crosses-100000");
    }
    let files = db.files();
    if files.iter().any(|(_, c)| c.len == 0) {
        rep.label("db:empty-file");
    }
    if files.iter().any(|(_, c)| c.len > 8192) {
        rep.label("db:file>8KiB");
    }
    if files.iter().any(|(_, c)| c.len > 65536) {
        rep.label("db:file>64KiB");
    }
    let distinct: BTreeSet<(u64, u32)> = files.iter().map(|(_, c)| if c.len == 0 { (0, 0) } else { (c.seed, c.len) }).collect();
    if distinct.len() < files.len() {
        rep.label("db:equal-contents");
    }
}

// ---------------------------------------------------------------------------------------------------------------
// section 1: layouts × cache histories
// ---------------------------------------------------------------------------------------------------------------

struct CacheCtx {
    spec: CacheSpec,
    memory: Arc<MemoryImmutableFileDigestCacheProvider>,
    json_path: PathBuf,
}

impl CacheCtx {
    fn new(spec: &CacheSpec, root: &Path) -> CacheCtx {
        let dir = root.join("cache");
        std::fs::create_dir_all(&dir).unwrap();
        let json_path = dir.join("immutables_digests.json");
        if let CacheSpec::Json { initial } = spec {
            match initial % 3 {
                1 => std::fs::write(&json_path, "{}").unwrap(),
                2 => std::fs::write(&json_path, "{ \"00000.chunk\": ").unwrap(),
                _ => {}
            }
        }
        CacheCtx { spec: spec.clone(), memory: Arc::new(MemoryImmutableFileDigestCacheProvider::default()), json_path }
    }
    /// the provider a freshly started process would use
    fn provider(&self) -> Option<Arc<dyn ImmutableFileDigestCacheProvider>> {
        match self.spec {
            CacheSpec::None => None,
            CacheSpec::Memory => Some(self.memory.clone()),
            CacheSpec::Json { .. } => Some(Arc::new(JsonImmutableFileDigestCacheProvider::new(&self.json_path))),
        }
    }
    fn digester(&self) -> CardanoImmutableDigester {
        CardanoImmutableDigester::new(self.provider(), discard_logger())
    }
}

fn hist_case(c: &HistCase) -> Report {
    let mut rep = Report::new();
    let scratch = Scratch::new("c12h");
    let rt = new_runtime();
    let n = c.db.trios.len();
    let final_beacon = c.db.first + pick_index(c.final_beacon, n) as u64;
    db_labels(&mut rep, &c.db);
    rep.label(if final_beacon == c.db.last() { "beacon:last" } else { "beacon:inner" });

    let mut finals: Vec<(Vec<(u64, String, String)>, Outcome)> = vec![];
    let mut classes: Vec<(String, String)> = vec![];
    let mut all_hist: BTreeSet<String> = BTreeSet::new();
    let mut all_extra: BTreeSet<&'static str> = BTreeSet::new();

    for (mi, mat) in c.mats.iter().enumerate() {
        let root = scratch.path().join(format!("m{mi}"));
        std::fs::create_dir_all(&root).unwrap();
        let mut disk = Disk::new(&root, &mat.pass);
        let cache = CacheCtx::new(&mat.cache, &root);
        let mut hist: BTreeSet<String> = BTreeSet::new();
        match &mat.cache {
            CacheSpec::None => {
                hist.insert("no-cache".into());
            }
            CacheSpec::Memory => {
                hist.insert("memory".into());
            }
            CacheSpec::Json { initial } => {
                hist.insert(["json", "json-empty-object", "json-corrupt"][(*initial % 3) as usize].into());
            }
        }

        // canonical files of this materialisation (files beyond the final beacon may be edited per materialisation)
        let mut canon: Vec<(u64, String, Option<Vec<u8>>)> = vec![];
        for (i, t) in c.db.trios.iter().enumerate() {
            let num = c.db.first + i as u64;
            for (e, cont) in t.iter().enumerate() {
                canon.push((num, canonical_name(num, e), Some(cont.bytes())));
            }
        }
        let beyond_idx: Vec<usize> = canon.iter().enumerate().filter(|(_, f)| f.0 > final_beacon).map(|(i, _)| i).collect();
        let mut layout_bits: BTreeSet<String> = BTreeSet::new();
        for ed in &mat.beyond_edits {
            if beyond_idx.is_empty() {
                break;
            }
            match ed {
                BeyondEdit::Delete { file } => {
                    canon[beyond_idx[pick_index(*file, beyond_idx.len())]].2 = None;
                    layout_bits.insert("beyond-beacon-deleted".into());
                }
                BeyondEdit::Rewrite { file, content } => {
                    canon[beyond_idx[pick_index(*file, beyond_idx.len())]].2 = Some(content.bytes());
                    layout_bits.insert("beyond-beacon-rewritten".into());
                }
            }
        }
        // the file carrying a visible trio's own number must exist for every history beacon: keep deletions but note
        // that the reference handles every resulting directory (NotEnough when the beacon number is absent).

        let mut visible = 1 + pick_index(mat.initial_visible, n);
        let mut written_trios = 0usize;
        let write_trios = |disk: &mut Disk, from: usize, to: usize, extras: bool| {
            let mut files: Vec<(String, Vec<u8>)> = canon
                .iter()
                .filter(|f| {
                    let idx = (f.0 - c.db.first) as usize;
                    idx >= from && idx < to
                })
                .filter_map(|f| f.2.clone().map(|b| (f.1.clone(), b)))
                .collect();
            if extras {
                for ex in &mat.extras {
                    for (name, b) in extra_files(ex, &c.db) {
                        if !files.iter().any(|(n, _)| *n == name) {
                            files.push((name, b));
                        }
                    }
                }
            }
            apply_order(&mut files, &mat.order);
            for (name, b) in files {
                disk.write(&name, b);
            }
        };
        for ex in &mat.extras {
            disk.write_outside(ex, &c.db);
            layout_bits.insert(extra_class(ex).into());
            all_extra.insert(extra_class(ex));
        }
        write_trios(&mut disk, 0, visible, true);
        written_trios = written_trios.max(visible);

        // ---- history
        let mut computed_before = false;
        for op in &mat.ops {
            match op {
                PreOp::Compute { grow, beacon, beyond } => {
                    let want = 1 + pick_index(*grow, n);
                    if want > visible {
                        write_trios(&mut disk, written_trios, want, false);
                        written_trios = want;
                        visible = want;
                        if computed_before {
                            hist.insert("grown-between-runs".into());
                        }
                    }
                    let b = if *beyond {
                        c.db.first + visible as u64
                    } else {
                        c.db.first + pick_index(*beacon, visible) as u64
                    };
                    let got = cut_root(&rt, &cache.digester(), &disk.pass_dir, b);
                    let want_out = ref_root(&disk.model, b);
                    if matches!(mat.cache, CacheSpec::None) {
                        // nothing is left behind by a cache-less run
                    } else if matches!(got, Outcome::Root(_)) {
                        hist.insert(
                            match b.cmp(&final_beacon) {
                                std::cmp::Ordering::Equal => "warm-same",
                                std::cmp::Ordering::Greater => "warm-longer",
                                std::cmp::Ordering::Less => "warm-shorter",
                            }
                            .into(),
                        );
                    }
                    if matches!(want_out, Outcome::NotEnough) {
                        rep.label("history:not-enough-immutable");
                    }
                    computed_before = true;
                    if got != want_out {
                        rep.violation(
                            "history-root-differs-from-reference",
                            format!("materialisation {mi}, history compute(beacon={b}): digester {got:?}, reference {want_out:?}"),
                        );
                        return rep;
                    }
                }
                PreOp::Fill { mask } => {
                    if let Some(p) = cache.provider() {
                        let entries: Vec<(String, String)> = ref_entries(&disk.model, |_| true)
                            .into_iter()
                            .enumerate()
                            .filter(|(i, _)| mask & (1u64 << (i % 64)) != 0)
                            .map(|(_, e)| (e.1, e.2))
                            .collect();
                        if !entries.is_empty() && rt.block_on(p.store(entries)).is_ok() {
                            hist.insert("partially-filled".into());
                        }
                    }
                }
                PreOp::StaleNames { n: k } => {
                    if let Some(p) = cache.provider() {
                        let entries: Vec<(String, String)> = (0..*k as u64)
                            .map(|i| {
                                (canonical_name(c.db.last() + 40 + i, (i % 3) as usize), sha256_hex(&i.to_le_bytes()))
                            })
                            .collect();
                        if rt.block_on(p.store(entries)).is_ok() {
                            hist.insert("entries-for-vanished-names".into());
                        }
                    }
                }
            }
        }
        if hist.len() == 1 && !matches!(mat.cache, CacheSpec::None) {
            hist.insert("cold".into());
        }
        // ---- everything becomes visible, final computation
        if written_trios < n {
            write_trios(&mut disk, written_trios, n, false);
            if computed_before {
                hist.insert("grown-between-runs".into());
            }
        }
        let digester = Arc::new(cache.digester());
        let got = cut_root(&rt, &digester, &disk.pass_dir, final_beacon);
        let want = ref_root(&disk.model, final_beacon);
        if got != want {
            rep.violation(
                "root-differs-from-reference",
                format!(
                    "materialisation {mi} (cache history {hist:?}), beacon {final_beacon}: digester {got:?}, reference {want:?}"
                ),
            );
            return rep;
        }
        // the digest list the aggregator publishes comes from compute_digests_for_range over the same cache
        let range = c.db.first..=final_beacon;
        match rt.block_on(digester.compute_digests_for_range(&disk.pass_dir, &range)) {
            Ok(d) => {
                let got_list: Vec<(u64, String, String)> =
                    d.entries.iter().map(|(f, h)| (f.number, f.filename.clone(), h.clone())).collect();
                let want_list = ref_entries(&disk.model, |x| range.contains(&x));
                if got_list != want_list {
                    rep.violation(
                        "range-digests-differ-from-reference",
                        format!("materialisation {mi} (cache history {hist:?}), range {range:?}: digester {got_list:?}, reference {want_list:?}"),
                    );
                    return rep;
                }
            }
            Err(e) => {
                rep.violation("range-digests-error", format!("materialisation {mi}: compute_digests_for_range failed: {e:?}"));
                return rep;
            }
        }
        // observed through the signable builder (what signers and the aggregator sign)
        if mi == 0 {
            let sb = CardanoDatabaseSignableBuilder::new(digester.clone(), &disk.pass_dir, discard_logger());
            let msg = rt.block_on(sb.compute_protocol_message(CardanoDbBeacon::new(1, final_beacon)));
            let part = msg.as_ref().ok().and_then(|m| m.get_message_part(&ProtocolMessagePartKey::CardanoDatabaseMerkleRoot).cloned());
            let want_part = match &want {
                Outcome::Root(r) => Some(r.clone()),
                _ => None,
            };
            if part != want_part {
                rep.violation(
                    "protocol-message-root-differs",
                    format!("signable builder root part {part:?} (result ok={}), reference {want_part:?}", msg.is_ok()),
                );
                return rep;
            }
            rep.label("observed:protocol-message");
        }
        for h in &hist {
            rep.label(format!("history:{h}"));
            all_hist.insert(h.clone());
        }
        rep.label(format!("order:{}", order_class(&mat.order)));
        rep.label(format!("pass:{}", pass_class(&mat.pass)));
        for l in &layout_bits {
            rep.label(format!("layout:{l}"));
        }
        let layout_class = format!("{}|{}|{:?}", order_class(&mat.order), pass_class(&mat.pass), layout_bits);
        let hist_class = format!("{hist:?}");
        classes.push((layout_class, hist_class));
        finals.push((ref_entries(&disk.model, |x| x <= final_beacon), got));
    }

    // equal covered content => equal result, whatever the layout and the history
    for i in 0..finals.len() {
        for j in i + 1..finals.len() {
            if finals[i].0 == finals[j].0 {
                rep.label("pair:equal-covered-content");
                if finals[i].1 != finals[j].1 {
                    rep.violation(
                        "materialisations-disagree",
                        format!("materialisations {i} and {j} hold the same covered files but give {:?} vs {:?}", finals[i].1, finals[j].1),
                    );
                    return rep;
                }
            } else {
                rep.label("pair:covered-content-differs(beacon-file-missing)");
            }
        }
    }
    let nontrivial = (0..classes.len())
        .any(|i| (i + 1..classes.len()).any(|j| classes[i].0 != classes[j].0 && classes[i].1 != classes[j].1));
    if nontrivial {
        rep.label("nontrivial:layout-and-history-differ");
        rep.nontrivial(format!("hist={all_hist:?} extras={all_extra:?}"));
    }
    rep
}

// ---------------------------------------------------------------------------------------------------------------
// section 2: single perturbations without cache
// ---------------------------------------------------------------------------------------------------------------

fn covered_map(model: &Model, beacon: u64) -> BTreeMap<String, Vec<u8>> {
    model
        .iter()
        .filter(|(n, _)| parse_immutable_name(n).is_some_and(|(x, _)| x <= beacon))
        .map(|(n, b)| (n.clone(), b.clone()))
        .collect()
}

fn pert_case(c: &PertCase) -> Report {
    let mut rep = Report::new();
    let scratch = Scratch::new("c12p");
    let rt = new_runtime();
    let n = c.db.trios.len();
    let beacon = c.db.first + pick_index(c.beacon, n) as u64;
    db_labels(&mut rep, &c.db);
    let mut disk = Disk::new(scratch.path(), &c.pass);
    let mut files: Vec<(String, Vec<u8>)> = c.db.files().into_iter().map(|(n, c)| (n, c.bytes())).collect();
    for ex in &c.extras {
        disk.write_outside(ex, &c.db);
        for (name, b) in extra_files(ex, &c.db) {
            if !files.iter().any(|(n, _)| *n == name) {
                files.push((name, b));
            }
        }
    }
    apply_order(&mut files, &c.order);
    for (name, b) in files {
        disk.write(&name, b);
    }
    let digester = CardanoImmutableDigester::new(None, discard_logger());
    // a long-lived signable builder over a cache-less digester, as a running signer / aggregator holds one: the root
    // it offers for signing is read before AND after the perturbation from the same instance
    let long_lived = CardanoDatabaseSignableBuilder::new(Arc::new(CardanoImmutableDigester::new(None, discard_logger())), &disk.pass_dir, discard_logger());
    let signed_root = |sb: &CardanoDatabaseSignableBuilder| -> Outcome {
        match rt.block_on(sb.compute_protocol_message(CardanoDbBeacon::new(1, beacon))) {
            Ok(m) => match m.get_message_part(&ProtocolMessagePartKey::CardanoDatabaseMerkleRoot) {
                Some(r) => Outcome::Root(r.clone()),
                None => Outcome::Other("no Merkle root part".into()),
            },
            Err(e) => {
                let not_enough = e.chain().any(|c| matches!(c.downcast_ref::<ImmutableDigesterError>(), Some(ImmutableDigesterError::NotEnoughImmutable { .. })));
                if not_enough { Outcome::NotEnough } else { Outcome::Other(format!("{e:?}").chars().take(300).collect()) }
            }
        }
    };
    let before_map = covered_map(&disk.model, beacon);
    let before = cut_root(&rt, &digester, &disk.pass_dir, beacon);
    let signed_before = signed_root(&long_lived);
    let before_ref = ref_root(&disk.model, beacon);
    if before != before_ref {
        rep.violation(
            "root-differs-from-reference",
            format!("unperturbed database, beacon {beacon}: digester {before:?}, reference {before_ref:?}"),
        );
        return rep;
    }

    let covered: Vec<String> = before_map.keys().cloned().collect();
    let uncovered: Vec<String> = disk.model.keys().filter(|k| !before_map.contains_key(*k)).cloned().collect();
    let pick = |raw: u16, v: &Vec<String>| v[pick_index(raw, v.len())].clone();
    let class: String;
    match &c.pert {
        Pert::Flip { file, pos, xor } => {
            let name = pick(*file, &covered);
            let mut b = disk.model[&name].clone();
            if b.is_empty() {
                b.push(*xor);
                class = "append(empty-file)".into();
            } else {
                let p = if *pos == u16::MAX { b.len() - 1 } else { pick_index(*pos, b.len()) };
                b[p] ^= (*xor).max(1);
                class = if p + 1 == b.len() { "flip-last-byte".into() } else { "flip".into() };
                if p >= 8192 {
                    rep.label("pert:flip-beyond-8KiB");
                }
            }
            disk.write(&name, b);
        }
        Pert::Truncate { file, newlen } => {
            let name = pick(*file, &covered);
            let mut b = disk.model[&name].clone();
            if b.is_empty() {
                b.push(0);
                class = "append(empty-file)".into();
            } else {
                let l = if *newlen == u16::MAX { b.len() - 1 } else { pick_index(*newlen, b.len()) };
                b.truncate(l);
                class = if l == 0 { "truncate-to-empty".into() } else { "truncate".into() };
            }
            disk.write(&name, b);
        }
        Pert::Append { file, extra } => {
            let name = pick(*file, &covered);
            let mut b = disk.model[&name].clone();
            b.extend_from_slice(extra);
            disk.write(&name, b);
            class = "append".into();
        }
        Pert::Delete { file } => {
            let name = pick(*file, &covered);
            disk.remove(&name);
            class = "delete".into();
        }
        Pert::RenameOut { file, kind } => {
            let name = pick(*file, &covered);
            let to = if kind % 2 == 0 {
                format!("{name}.bak")
            } else {
                let (_, ext) = parse_immutable_name(&name).unwrap();
                // a number beyond everything on disk
                format!("{:05}.{ext}", c.db.last() + 20)
            };
            disk.rename(&name, &to);
            class = if kind % 2 == 0 { "rename-to-non-immutable".into() } else { "rename-beyond-beacon".into() };
        }
        Pert::RenameOver { file, onto } => {
            let a = pick(*file, &covered);
            let b = pick(*onto, &covered);
            if a == b {
                disk.remove(&a);
                class = "delete".into();
            } else {
                disk.rename(&a, &b);
                class = "rename-over-covered".into();
            }
        }
        Pert::SwapContents { a, b } => {
            let na = pick(*a, &covered);
            let nb = pick(*b, &covered);
            let (ca, cb) = (disk.model[&na].clone(), disk.model[&nb].clone());
            class = if ca == cb { "swap-equal-contents(no-op)".into() } else { "swap-contents".into() };
            disk.write(&na, cb);
            disk.write(&nb, ca);
        }
        Pert::ReplaceFresh { file, content } => {
            let name = pick(*file, &covered);
            let fresh = content.bytes();
            class = if fresh == disk.model[&name] { "rewrite-same(no-op)".into() } else { "replace".into() };
            disk.write(&name, fresh);
        }
        Pert::DeleteBeaconTrio => {
            for name in covered.iter().filter(|n| parse_immutable_name(n).unwrap().0 == beacon) {
                disk.remove(name);
            }
            class = "delete-beacon-trio".into();
        }
        Pert::UncoveredFlip { file, pos, xor } => {
            if uncovered.is_empty() {
                disk.write(&canonical_name(c.db.last() + 3, 0), vec![*xor]);
                class = "uncovered-add".into();
            } else {
                let name = pick(*file, &uncovered);
                let mut b = disk.model[&name].clone();
                if b.is_empty() {
                    b.push(*xor);
                } else {
                    let p = pick_index(*pos, b.len());
                    b[p] ^= (*xor).max(1);
                }
                disk.write(&name, b);
                class = "uncovered-modify".into();
            }
        }
        Pert::UncoveredDelete { file } => {
            if uncovered.is_empty() {
                disk.write("notes.txt", vec![1, 2, 3]);
                class = "uncovered-add".into();
            } else {
                let name = pick(*file, &uncovered);
                disk.remove(&name);
                class = "uncovered-delete".into();
            }
        }
        Pert::UncoveredAdd { extra } => {
            disk.write_outside(extra, &c.db);
            for (name, b) in extra_files(extra, &c.db) {
                if !disk.model.contains_key(&name) {
                    disk.write(&name, b);
                }
            }
            class = format!("uncovered-add({})", extra_class(extra));
        }
    }
    rep.label(format!("pert:{class}"));
    let after_map = covered_map(&disk.model, beacon);
    let changed = after_map != before_map;
    let after = cut_root(&rt, &digester, &disk.pass_dir, beacon);
    let after_ref = ref_root(&disk.model, beacon);
    if matches!(after_ref, Outcome::NotEnough) {
        rep.label("after:not-enough-immutable");
    }
    if after != after_ref {
        rep.violation(
            "perturbed-root-differs-from-reference",
            format!("after {:?} (beacon {beacon}): digester {after:?}, reference {after_ref:?}", c.pert),
        );
        return rep;
    }
    if let Outcome::Other(e) = &after {
        rep.violation("unexpected-digester-error", format!("after {:?}: {e}", c.pert));
        return rep;
    }
    let signed_after = signed_root(&long_lived);
    if signed_before != before_ref || signed_after != after_ref {
        rep.violation(
            "long-lived-signable-builder-root-differs-from-reference",
            format!(
                "the same CardanoDatabaseSignableBuilder (no digest cache) asked at beacon {beacon} before and after {:?}: {signed_before:?} then {signed_after:?}; reference {before_ref:?} then {after_ref:?}",
                c.pert
            ),
        );
        return rep;
    }
    rep.label("observed:long-lived-signable-builder");
    if changed && after == before {
        rep.violation(
            "covered-change-not-reflected",
            format!("{:?} changed the covered files (beacon {beacon}) but the result stayed {after:?}", c.pert),
        );
        return rep;
    }
    if !changed && after != before {
        rep.violation(
            "uncovered-change-moved-root",
            format!("{:?} left the covered files (beacon {beacon}) unchanged but the result moved {before:?} -> {after:?}", c.pert),
        );
        return rep;
    }
    rep.label(if changed { "covered-content:changed" } else { "covered-content:unchanged" });
    rep.nontrivial(format!(
        "{class}|{}|{}|cross={}",
        order_class(&c.order),
        pass_class(&c.pass),
        c.db.first < 100_000 && c.db.last() >= 100_000
    ));
    rep
}

pub fn run(args: &Args) -> i32 {
    let mut check = Check::new("C12", "exploration", args);
    check
        .rule(
            "layouts-caches: 2-3 materialisations of one canonical database; non-trivial = some pair differs in layout class \
             (creation order, directory handed over, extra-file classes) AND in cache-history class; distinct by (history \
             classes, extra classes). perturbations: one covered/uncovered perturbation of a cache-less database; distinct by \
             (perturbation class, order, directory handed over, crossing of 99999/100000)",
        )
        .assume("the directory is a Cardano node database: exactly one directory named `immutable` in the walked tree; every *.chunk/*.primary/*.secondary directly inside it has a decimal stem (5-digit zero padded as cardano-node writes them)")
        .assume("files do not change while or after they are digested (a stale cache after a file changed is not covered by the statement)")
        .assume("SHA-256 / Blake2s-256 implementations (RustCrypto) and the MMR definition (perfect-tree peaks, bagging right-to-left) are the trusted base of the reference; the reference is pinned by the repository's golden root")
        .require_label("nontrivial:layout-and-history-differ")
        .require_label("pair:equal-covered-content")
        .require_label("history:warm-same")
        .require_label("history:warm-longer")
        .require_label("history:warm-shorter")
        .require_label("history:partially-filled")
        .require_label("history:entries-for-vanished-names")
        .require_label("history:grown-between-runs")
        .require_label("history:cold")
        .require_label("history:no-cache")
        .require_label("history:json-corrupt")
        .require_label("layout:beyond-last")
        .require_label("layout:non-immutable-name")
        .require_label("layout:beside")
        .require_label("layout:subdir-lookalike")
        .require_label("layout:beyond-beacon-rewritten")
        .require_label("db:crosses-100000")
        .require_label("db:empty-file")
        .require_label("db:file>64KiB")
        .require_label("pert:flip")
        .require_label("pert:flip-last-byte")
        .require_label("pert:truncate")
        .require_label("pert:delete")
        .require_label("pert:rename-to-non-immutable")
        .require_label("pert:rename-beyond-beacon")
        .require_label("pert:swap-contents")
        .require_label("pert:uncovered-modify")
        .require_label("after:not-enough-immutable")
        .require_label("covered-content:unchanged");
    if let Err(e) = mmr_self_test() {
        check.inconclusive(e);
        return check.finish();
    }
    let t = check.tier;
    check.section("layouts-caches", hist_strategy, t.pick(2000, 60_000), hist_case);
    check.section("perturbations", pert_strategy, t.pick(6000, 180_000), pert_case);
    check.finish()
}
