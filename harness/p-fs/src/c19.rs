//! C19 — Only verified immutables and manifest-vouched ancillary files get restored.
//!
//! The REAL `CardanoDatabaseClient::download_unpack` (built with the public `ClientBuilder`, real
//! `HttpFileDownloader` + tar/zstd/gzip unpacker, real `AncillaryVerifier` configured with a harness-generated
//! ancillary verification key, wrapped in the same `RetryDownloader` as the default stack but without pauses) is driven
//! against mirrors that are plain directories referenced by `file://` locations (a few per cent of the cases serve
//! the same directories over a loopback HTTP server to exercise the streaming branch). Every archive is written by
//! the harness with its own raw tar writer (so that it can also emit absolute / `..` paths, symlinks, hardlinks,
//! GNU long names, truncated streams).
//!
//! Sections: `honest` (positive control over ranges/options/pre-existing files), `archives` (out-of-policy entries
//! in immutable and ancillary archives, manifest alterations), `faults` (missing location, corrupt / truncated
//! archive, blocked final move, second mirror) and `abort-inflight` (FIFO-backed mirrors: an immutable download fails
//! while the ancillary download is provably in flight). Findings of the unchanged tree have dedicated witnesses.
//!
//! Oracle (computed from the harness' own bookkeeping, never from the client):
//!   after ∖ before ⊆  immutable trio files of the requested range
//!                   ∪ the client's bootstrap markers (`clean` empty, `protocolMagicId` = magic of the network; only after Ok)
//!                   ∪ (path, sha256) pairs of the manifest the harness' honest signer signed with the configured key
//!                     (only when the ancillary option is on and the served manifest is the unaltered one)
//!   + after an ancillary verification that must fail nothing carried by the ancillary archive is new in the target
//!   + pre-existing user files are untouched (except legitimate overwrites by the three classes above)
//!   + nothing changes outside the target directory (sentinel parent directory)
//!   + honest downloads succeed and deliver exactly the expected files (positive control).

use std::collections::{BTreeMap, BTreeSet};
use std::io::Write;

use slog::Drain as _;
use std::path::{Path, PathBuf};
use std::sync::Arc;

use mithril_cardano_node_internal_database::entities::AncillaryFilesManifest;
use mithril_client::{AggregatorDiscoveryType, ClientBuilder, GenesisVerificationKey};
use mithril_client::cardano_database_client::{CardanoDatabaseClient, DownloadUnpackOptions, ImmutableFileRange};
use mithril_client::feedback::FeedbackSender;
use mithril_client::file_downloader::{FileDownloadRetryPolicy, HttpFileDownloader, RetryDownloader};
use mithril_common::crypto_helper::{ManifestSigner, ManifestVerifierSecretKey};
use mithril_common::messages::CardanoDatabaseSnapshotMessage;
use proptest::prelude::*;
use serde::{Deserialize, Serialize};
use sha2::{Digest, Sha256};
use vcore::util::Scratch;
use vcore::{Args, Check, Report, catch, pick_index};

// ------------------------------------------------------------------------------------------------
// case model
// ------------------------------------------------------------------------------------------------

#[derive(Clone, Debug, Serialize, Deserialize, PartialEq)]
enum RangeSpec {
    Full,
    From(u16),
    UpTo(u16),
    Inner(u16, u16),
    Invalid,
}

/// pre-existing user files in the target directory
#[derive(Clone, Debug, Serialize, Deserialize, PartialEq, Eq, PartialOrd, Ord)]
enum Pre {
    TopNote,
    UserDir,
    ImmInRange,
    ImmOutside,
    ImmOdd,
    LedgerOld,
    VolatileOld,
    MarkerClean,
    MarkerMagic,
}

/// out-of-policy entries a mirror can put into an *immutable* archive
#[derive(Clone, Debug, Serialize, Deserialize, PartialEq)]
enum Extra {
    LedgerFlat,
    LedgerNested,
    Volatile,
    TopFile,
    TopDirFile,
    NestedImm,
    ImmOdd,
    MarkerClean,
    MarkerMagic,
    MarkerDir,
    ManifestName,
    /// `immutable/NNNNN.<ext>` for an arbitrary number in 0..=beacon+3
    ImmNumber(u16, u8),
    /// same path as the i-th file of the honest ancillary manifest, other content
    ShadowVouched(u16),
    AbsWorld,
    DotDot,
    DotDotDeep,
    SymlinkOut,
    SymlinkNamedImm,
    SymlinkDirThenWrite,
    SymlinkLedgerDivert,
    HardlinkUser,
    /// `immutable/<unusual name>` (see `odd_name`): not valid UTF-8, hidden, blanks, backslash, other letter case,
    /// longer than a tar header field, control character, multi-byte characters
    ImmOddName(u8),
}

/// Unusual but legal file names. U+FFFD stands for one byte 0xFF: the tar writer emits the raw byte and the
/// directory walker reads names lossily, so both sides of the comparison spell such a name the same way.
fn odd_name(style: u8, honest: &str) -> String {
    match style % 8 {
        0 => "ledger-state-\u{FFFD}\u{FFFD}.bin".to_string(),
        1 => ".hidden".to_string(),
        2 => "with blank .txt".to_string(),
        3 => "back\\slash".to_string(),
        4 => honest.to_uppercase(),
        5 => format!("{}.long", "n".repeat(130)),
        6 => "new\nline".to_string(),
        _ => "\u{e9}-\u{fc}-\u{540d}.dat".to_string(),
    }
}

/// the bytes of an entry name inside a tar archive (U+FFFD -> 0xFF, see `odd_name`)
fn raw_name(path: &str) -> Vec<u8> {
    let mut out = Vec::with_capacity(path.len());
    for ch in path.chars() {
        if ch == '\u{FFFD}' {
            out.push(0xFF);
        } else {
            let mut b = [0u8; 4];
            out.extend_from_slice(ch.encode_utf8(&mut b).as_bytes());
        }
    }
    out
}

#[derive(Clone, Debug, Serialize, Deserialize, PartialEq)]
struct ImmExtra {
    arch: u16,
    kind: Extra,
    first: bool,
}

/// alterations of the ancillary archive / manifest after the honest signer signed it
#[derive(Clone, Debug, Serialize, Deserialize, PartialEq)]
enum Alter {
    None,
    ContentChanged(u16),
    ContentChangedHashUpdated(u16),
    EntryAdded,
    EntryRemoved(u16),
    PathRenamed(u16),
    /// a listed path spelled differently (separator, letter case, blanks), its file served under that spelling:
    /// another location on disk, hence another file, than the one the signer vouched for
    PathRespelled(u16, u8),
    /// the LAST byte of a listed file changed (manifest untouched)
    TailByteChanged(u16),
    SigFlip(u16),
    SigRemoved,
    /// whole manifest re-signed with another key (true: after adding an evil file)
    SigOtherKey(bool),
    ManifestMissing,
    ManifestGarbage,
    FileMissing(u16),
    /// (k1,v1),(k2,v2) -> (k1+v1+k2, v2): same concatenation of keys and values
    MergeAdjacent(u16),
}

/// unlisted entries in the ancillary archive
#[derive(Clone, Debug, Serialize, Deserialize, PartialEq)]
enum AncExtra {
    LedgerEvil,
    Volatile,
    Top,
    MarkerClean,
    ImmInRange,
    Abs,
    DotDot,
    SymlinkOut,
    NestedManifest,
    /// `ledger/<unusual name>` (see `odd_name`)
    OddName(u8),
}

#[derive(Clone, Debug, Serialize, Deserialize, PartialEq)]
struct AncSpec {
    layout: u8,
    alter: Alter,
    extras: Vec<AncExtra>,
    manifest_first: bool,
    /// size class of the last listed ledger file: 0 small (tens of bytes), 1 just over 64 KiB, 2 just over 2 MiB (sizes
    /// around the read-buffer sizes of the hashing code: every byte of a listed file is vouched for, not a prefix)
    #[serde(default)]
    big: u8,
}

#[derive(Clone, Debug, Serialize, Deserialize, PartialEq)]
enum Fault {
    MissingImm(u16),
    CorruptImm(u16, u16),
    TruncTarImm(u16),
    MissingAnc,
    CorruptAnc(u16),
    TruncTarAnc,
    /// a pre-existing directory sits where the first listed ledger file has to be moved
    MoveBlockedByDir,
    /// a pre-existing regular file named `ledger`
    LedgerIsFile,
}

#[derive(Clone, Debug, Serialize, Deserialize)]
struct Case {
    seed: u64,
    beacon: u8,
    range: RangeSpec,
    include_ancillary: bool,
    allow_override: bool,
    zstd: bool,
    parallel: u8,
    network: u8,
    /// 0: one mirror; 1: second mirror with the same archives but no transport fault; 2: second mirror with
    /// fully honest immutable archives
    mirror2: u8,
    pre: Vec<Pre>,
    imm_extras: Vec<ImmExtra>,
    anc: AncSpec,
    faults: Vec<Fault>,
    /// serve the mirrors over loopback HTTP (streaming branch of the downloader) instead of file:// locations
    #[serde(default)]
    http: bool,
}

// ------------------------------------------------------------------------------------------------
// deterministic content, hashing, listing
// ------------------------------------------------------------------------------------------------

fn sha_hex(data: &[u8]) -> String {
    hex::encode(Sha256::digest(data))
}

fn content(seed: u64, tag: &str, path: &str) -> Vec<u8> {
    let mut h = Sha256::new();
    h.update(seed.to_le_bytes());
    h.update(tag.as_bytes());
    h.update([0u8]);
    h.update(path.as_bytes());
    let d = h.finalize();
    let len = 24 + (d[0] as usize % 200);
    let mut out = Vec::with_capacity(len + 32);
    let mut ctr = 0u32;
    while out.len() < len {
        let mut h2 = Sha256::new();
        h2.update(d);
        h2.update(ctr.to_le_bytes());
        out.extend_from_slice(&h2.finalize());
        ctr += 1;
    }
    out.truncate(len);
    out
}

fn trio(n: u64) -> [String; 3] {
    [format!("{n:05}.chunk"), format!("{n:05}.primary"), format!("{n:05}.secondary")]
}

const EXTS: [&str; 3] = ["chunk", "primary", "secondary"];

#[derive(Clone, Debug, PartialEq, Eq)]
enum Node {
    File(String),
    Symlink(String),
    Dir,
    Other,
}

fn walk_into(root: &Path, rel: &str, out: &mut BTreeMap<String, Node>) {
    let dir = if rel.is_empty() { root.to_path_buf() } else { root.join(rel) };
    let Ok(rd) = std::fs::read_dir(&dir) else { return };
    let mut names: Vec<_> = rd.flatten().map(|e| e.file_name()).collect();
    names.sort();
    for name in names {
        let name_s = name.to_string_lossy().to_string();
        let child_rel = if rel.is_empty() { name_s.clone() } else { format!("{rel}/{name_s}") };
        let p = dir.join(&name);
        let Ok(md) = std::fs::symlink_metadata(&p) else { continue };
        let ft = md.file_type();
        if ft.is_symlink() {
            let t = std::fs::read_link(&p).map(|t| t.to_string_lossy().to_string()).unwrap_or_default();
            out.insert(child_rel, Node::Symlink(t));
        } else if ft.is_dir() {
            out.insert(child_rel.clone(), Node::Dir);
            walk_into(root, &child_rel, out);
        } else if ft.is_file() {
            let data = std::fs::read(&p).unwrap_or_default();
            out.insert(child_rel, Node::File(sha_hex(&data)));
        } else {
            out.insert(child_rel, Node::Other);
        }
    }
}

fn walk(root: &Path) -> BTreeMap<String, Node> {
    let mut m = BTreeMap::new();
    walk_into(root, "", &mut m);
    m
}

// ------------------------------------------------------------------------------------------------
// raw tar writer
// ------------------------------------------------------------------------------------------------

#[derive(Clone, Debug)]
enum EKind {
    File(Vec<u8>),
    Symlink(String),
    Hardlink(String),
}

#[derive(Clone, Debug)]
struct TEntry {
    path: String,
    kind: EKind,
}

fn raw_header(name: &[u8], et: tar::EntryType, size: u64, link: &[u8]) -> tar::Header {
    let mut h = tar::Header::new_gnu();
    {
        let old = h.as_old_mut();
        let n = name.len().min(100);
        old.name[..n].copy_from_slice(&name[..n]);
        let l = link.len().min(100);
        old.linkname[..l].copy_from_slice(&link[..l]);
    }
    h.set_mode(0o644);
    h.set_uid(0);
    h.set_gid(0);
    h.set_mtime(1_700_000_000);
    h.set_size(size);
    h.set_entry_type(et);
    h.set_cksum();
    h
}

fn push_block(out: &mut Vec<u8>, h: &tar::Header, data: &[u8]) {
    out.extend_from_slice(h.as_bytes());
    out.extend_from_slice(data);
    let pad = (512 - data.len() % 512) % 512;
    out.extend(std::iter::repeat_n(0u8, pad));
}

/// returns the tar bytes and, for each entry, the offset at which its header starts
fn write_tar(entries: &[TEntry]) -> (Vec<u8>, Vec<usize>) {
    let mut out = Vec::new();
    let mut offsets = Vec::new();
    for e in entries {
        offsets.push(out.len());
        let name_raw = raw_name(&e.path);
        let name = name_raw.as_slice();
        let (et, link, data): (tar::EntryType, &[u8], &[u8]) = match &e.kind {
            EKind::File(d) => (tar::EntryType::Regular, &[], d.as_slice()),
            EKind::Symlink(t) => (tar::EntryType::Symlink, t.as_bytes(), &[]),
            EKind::Hardlink(t) => (tar::EntryType::Link, t.as_bytes(), &[]),
        };
        if link.len() > 100 {
            let mut d = link.to_vec();
            d.push(0);
            let h = raw_header(b"././@LongLink", tar::EntryType::GNULongLink, d.len() as u64, &[]);
            push_block(&mut out, &h, &d);
        }
        if name.len() > 100 {
            let mut d = name.to_vec();
            d.push(0);
            let h = raw_header(b"././@LongLink", tar::EntryType::GNULongName, d.len() as u64, &[]);
            push_block(&mut out, &h, &d);
        }
        let h = raw_header(name, et, data.len() as u64, link);
        push_block(&mut out, &h, data);
    }
    out.extend(std::iter::repeat_n(0u8, 1024));
    (out, offsets)
}

fn compress(data: &[u8], zstd_algo: bool) -> Vec<u8> {
    if zstd_algo {
        zstd::encode_all(data, 1).expect("zstd")
    } else {
        let mut enc = flate2::write::GzEncoder::new(Vec::new(), flate2::Compression::fast());
        enc.write_all(data).expect("gz");
        enc.finish().expect("gz")
    }
}

/// where tar's unpack would place the entry relative to the unpack directory (None: skipped because of `..`)
fn normalize(path: &str) -> Option<String> {
    let mut parts = vec![];
    for c in path.split('/') {
        match c {
            "" | "." => {}
            ".." => return None,
            x => parts.push(x),
        }
    }
    if parts.is_empty() { None } else { Some(parts.join("/")) }
}

// ------------------------------------------------------------------------------------------------
// world construction
// ------------------------------------------------------------------------------------------------

#[derive(Clone, Copy, Debug, PartialEq, Eq)]
enum Origin {
    Imm,
    Anc,
}

struct World {
    target: PathBuf,
    world: PathBuf,
    msg: CardanoDatabaseSnapshotMessage,
    range: ImmutableFileRange,
    /// resolved requested range (None: invalid request)
    requested: Option<(u64, u64)>,
    options: DownloadUnpackOptions,
    /// (path, sha256) pairs the honest signer signed and that are served unaltered
    vouched: BTreeSet<(String, String)>,
    /// honest content hash by path for the positive control
    honest: BTreeMap<String, String>,
    /// target-relative path -> which kind of archive carries it
    carried: BTreeMap<String, Origin>,
    anc_must_fail: bool,
    anc_listed: Vec<String>,
    ancillary_vk: String,
    genesis_vk: String,
    magic: Option<&'static str>,
    splice_preserved: bool,
    /// do not use the memoized client (HTTP cases: connection pools must not outlive their runtime)
    fresh_client: bool,
    anc_tar: Vec<u8>,
    anc_offsets: Vec<usize>,
    mirror0: PathBuf,
    ext: &'static str,
}

fn resolve_range(spec: &RangeSpec, beacon: u64) -> (ImmutableFileRange, Option<(u64, u64)>) {
    let n = beacon as usize + 1;
    match spec {
        RangeSpec::Full => (ImmutableFileRange::Full, Some((0, beacon))),
        RangeSpec::From(a) => {
            let a = pick_index(*a, n) as u64;
            (ImmutableFileRange::From(a), Some((a, beacon)))
        }
        RangeSpec::UpTo(b) => {
            let b = pick_index(*b, n) as u64;
            (ImmutableFileRange::UpTo(b), Some((0, b)))
        }
        RangeSpec::Inner(a, b) => {
            let a = pick_index(*a, n) as u64;
            let b = pick_index(*b, n) as u64;
            let (lo, hi) = (a.min(b), a.max(b));
            (ImmutableFileRange::Range(lo, hi), Some((lo, hi)))
        }
        RangeSpec::Invalid => (ImmutableFileRange::Range(beacon + 1, beacon + 3), None),
    }
}

fn signer_from_seed(seed: u64, tag: &str) -> ManifestSigner {
    let mut h = Sha256::new();
    h.update(seed.to_le_bytes());
    h.update(tag.as_bytes());
    let sk = ManifestVerifierSecretKey::from_bytes(&h.finalize()).expect("ed25519 secret key from 32 bytes");
    ManifestSigner::from_secret_key(sk)
}

/// the byte string the aggregator signs: sha256 over the concatenation of path and hash of every entry (sorted)
fn manifest_message(data: &BTreeMap<String, String>) -> Vec<u8> {
    let mut h = Sha256::new();
    for (k, v) in data {
        h.update(k.as_bytes());
        h.update(v.as_bytes());
    }
    h.finalize().to_vec()
}

fn manifest_json(data: &BTreeMap<String, String>, signature: Option<String>) -> Vec<u8> {
    let mut m = serde_json::Map::new();
    m.insert("data".into(), serde_json::to_value(data).unwrap());
    if let Some(s) = signature {
        m.insert("signature".into(), serde_json::Value::String(s));
    }
    serde_json::to_vec(&serde_json::Value::Object(m)).unwrap()
}

fn honest_ancillary_paths(layout: u8, beacon: u64) -> Vec<String> {
    let mut v: Vec<String> = trio(beacon + 1).iter().map(|f| format!("immutable/{f}")).collect();
    let slot = 1000 * (beacon + 1) + 37;
    match layout % 3 {
        0 => v.push(format!("ledger/{slot}")),
        1 => {
            v.push(format!("ledger/{}", slot - 500));
            v.push(format!("ledger/{slot}"));
        }
        _ => {
            v.push(format!("ledger/{slot}/meta"));
            v.push(format!("ledger/{slot}/state"));
            v.push(format!("ledger/{slot}/tables/tvar"));
        }
    }
    v
}

fn ext_name(e: u8) -> &'static str {
    EXTS[e as usize % 3]
}

fn put(dir: &Path, rel: &str, data: &[u8]) {
    let p = dir.join(rel);
    if let Some(parent) = p.parent() {
        std::fs::create_dir_all(parent).expect("mkdir");
    }
    std::fs::write(&p, data).expect("write");
}

/// like `put`, but a layout that cannot be created (conflicting pre-existing entries) is simply skipped
fn try_put(dir: &Path, rel: &str, data: &[u8]) {
    let p = dir.join(rel);
    if let Some(parent) = p.parent() {
        if std::fs::create_dir_all(parent).is_err() {
            return;
        }
    }
    let _ = std::fs::write(&p, data);
}

fn in_range(req: Option<(u64, u64)>, n: u64) -> bool {
    matches!(req, Some((lo, hi)) if lo <= n && n <= hi)
}

fn build_world(c: &Case, root: &Path, http_base: Option<&str>, rep: &mut Report) -> World {
    let beacon = c.beacon.clamp(1, 6) as u64;
    let world = root.join("world");
    let target = world.join("db");
    let mirrors = [root.join("mirror0"), root.join("mirror1")];
    std::fs::create_dir_all(&target).unwrap();
    for m in &mirrors {
        std::fs::create_dir_all(m).unwrap();
    }
    put(&world, "secret", b"top secret outside of the database directory");
    put(&world, "ldir/keep", b"a directory outside of the database directory");
    let world_s = world.to_string_lossy().to_string();

    let (range, requested) = resolve_range(&c.range, beacon);
    let req_numbers: Vec<u64> = match requested {
        Some((lo, hi)) => (lo..=hi).collect(),
        None => vec![],
    };
    let anc_paths = honest_ancillary_paths(c.anc.layout, beacon);

    // ---- pre-existing user files -------------------------------------------------------------
    let mut pre: BTreeSet<Pre> = c.pre.iter().cloned().collect();
    if c.imm_extras.iter().any(|e| e.kind == Extra::HardlinkUser) {
        pre.insert(Pre::TopNote);
    }
    for p in &pre {
        let rel = match p {
            Pre::TopNote => "notes.txt".to_string(),
            Pre::UserDir => "mydata/a.bin".to_string(),
            Pre::ImmInRange => format!("immutable/{}", trio(req_numbers.first().copied().unwrap_or(0))[0]),
            Pre::ImmOutside => {
                let n = (0..=beacon + 2).find(|n| !in_range(requested, *n)).unwrap_or(beacon + 2);
                format!("immutable/{}", trio(n)[1])
            }
            Pre::ImmOdd => "immutable/my-notes.txt".to_string(),
            Pre::LedgerOld => "ledger/42".to_string(),
            Pre::VolatileOld => "volatile/blocks-0.dat".to_string(),
            Pre::MarkerClean => "clean".to_string(),
            Pre::MarkerMagic => "protocolMagicId".to_string(),
        };
        put(&target, &rel, &content(c.seed, "user", &rel));
        rep.label("pre-existing-files");
    }
    for f in &c.faults {
        match f {
            Fault::MoveBlockedByDir => {
                let first_ledger = anc_paths.iter().find(|p| p.starts_with("ledger/")).unwrap();
                try_put(&target, &format!("{first_ledger}/occupied"), b"user directory in the way");
            }
            Fault::LedgerIsFile => {
                if !target.join("ledger").exists() {
                    try_put(&target, "ledger", b"a regular file named ledger");
                }
            }
            _ => {}
        }
    }

    // ---- immutable archives ------------------------------------------------------------------
    let mut carried: BTreeMap<String, Origin> = BTreeMap::new();
    let mut honest: BTreeMap<String, String> = BTreeMap::new();
    let mut extras_by_arch: BTreeMap<u64, Vec<&ImmExtra>> = BTreeMap::new();
    if !req_numbers.is_empty() {
        for e in &c.imm_extras {
            let n = req_numbers[pick_index(e.arch, req_numbers.len())];
            extras_by_arch.entry(n).or_default().push(e);
        }
    }
    let ext = if c.zstd { "tar.zst" } else { "tar.gz" };
    for n in 0..=beacon {
        let mut honest_entries = vec![];
        for f in trio(n) {
            let rel = format!("immutable/{f}");
            let data = content(c.seed, "imm", &rel);
            if in_range(requested, n) {
                honest.insert(rel.clone(), sha_hex(&data));
            }
            honest_entries.push(TEntry { path: rel, kind: EKind::File(data) });
        }
        let mut first = vec![];
        let mut last = vec![];
        for e in extras_by_arch.get(&n).cloned().unwrap_or_default() {
            let mut ents: Vec<TEntry> = vec![];
            let evil = |rel: &str| TEntry { path: rel.to_string(), kind: EKind::File(content(c.seed, "evil", rel)) };
            match &e.kind {
                Extra::LedgerFlat => {
                    ents.push(evil("ledger/4242"));
                    rep.label("imm-extra:ledger");
                }
                Extra::LedgerNested => {
                    ents.push(evil("ledger/4242/state"));
                    rep.label("imm-extra:ledger");
                }
                Extra::Volatile => {
                    ents.push(evil("volatile/blocks-9.dat"));
                    rep.label("imm-extra:volatile");
                }
                Extra::TopFile => {
                    ents.push(evil("evil.txt"));
                    rep.label("imm-extra:top-level");
                }
                Extra::TopDirFile => {
                    ents.push(evil("stuff/evil.bin"));
                    rep.label("imm-extra:top-level");
                }
                Extra::NestedImm => {
                    ents.push(evil("immutable/x/y"));
                    rep.label("imm-extra:nested-immutable");
                }
                Extra::ImmOdd => {
                    ents.push(evil(&format!("immutable/{}.bak", trio(n)[0])));
                    rep.label("imm-extra:nested-immutable");
                }
                Extra::ImmOddName(style) => {
                    ents.push(evil(&format!("immutable/{}", odd_name(*style, &trio(n)[0]))));
                    rep.label("imm-extra:odd-name-in-immutable-dir");
                    rep.label(format!("odd-name:{}", style % 8));
                }
                Extra::MarkerClean => {
                    ents.push(evil("clean"));
                    rep.label("imm-extra:marker");
                }
                Extra::MarkerMagic => {
                    ents.push(evil("protocolMagicId"));
                    rep.label("imm-extra:marker");
                }
                Extra::MarkerDir => {
                    ents.push(evil("clean/evil"));
                    rep.label("imm-extra:marker");
                }
                Extra::ManifestName => {
                    ents.push(evil("ancillary_manifest.json"));
                    rep.label("imm-extra:top-level");
                }
                Extra::ImmNumber(raw, x) => {
                    let m = pick_index(*raw, beacon as usize + 4) as u64;
                    ents.push(evil(&format!("immutable/{m:05}.{}", ext_name(*x))));
                    if in_range(requested, m) {
                        rep.label("imm-extra:other-number-in-range");
                    } else if m <= beacon {
                        rep.label("imm-extra:out-of-range");
                    } else {
                        rep.label("imm-extra:beyond-beacon");
                    }
                }
                Extra::ShadowVouched(i) => {
                    let p = &anc_paths[pick_index(*i, anc_paths.len())];
                    ents.push(evil(p));
                    rep.label("imm-extra:shadows-ancillary-file");
                }
                Extra::AbsWorld => {
                    ents.push(evil(&format!("{world_s}/abs_evil")));
                    rep.label("imm-extra:abs-or-dotdot");
                }
                Extra::DotDot => {
                    ents.push(evil("../dd_evil"));
                    rep.label("imm-extra:abs-or-dotdot");
                }
                Extra::DotDotDeep => {
                    ents.push(evil("immutable/../../dd_evil2"));
                    rep.label("imm-extra:abs-or-dotdot");
                }
                Extra::SymlinkOut => {
                    ents.push(TEntry { path: "link_out".into(), kind: EKind::Symlink(format!("{world_s}/secret")) });
                    rep.label("imm-extra:link");
                }
                Extra::SymlinkNamedImm => {
                    ents.push(TEntry {
                        path: format!("immutable/{}", trio(n)[2]),
                        kind: EKind::Symlink(format!("{world_s}/secret")),
                    });
                    rep.label("imm-extra:link");
                }
                Extra::SymlinkDirThenWrite => {
                    ents.push(TEntry { path: "immutable/sl".into(), kind: EKind::Symlink(world_s.clone()) });
                    ents.push(evil("immutable/sl/through_evil"));
                    rep.label("imm-extra:link");
                }
                Extra::SymlinkLedgerDivert => {
                    ents.push(TEntry { path: "ledger".into(), kind: EKind::Symlink(format!("{world_s}/ldir")) });
                    rep.label("imm-extra:link");
                }
                Extra::HardlinkUser => {
                    ents.push(TEntry {
                        path: format!("immutable/{}", trio(n)[2]),
                        kind: EKind::Hardlink("notes.txt".into()),
                    });
                    rep.label("imm-extra:link");
                }
            }
            for t in &ents {
                if let Some(p) = normalize(&t.path) {
                    carried.insert(p, Origin::Imm);
                }
            }
            if e.first { first.extend(ents) } else { last.extend(ents) }
        }
        let mut entries = first;
        entries.extend(honest_entries.clone());
        entries.extend(last);
        let (tar_bytes, offsets) = write_tar(&entries);
        let mut bytes0 = Some(compress(&tar_bytes, c.zstd));
        let clean_bytes = bytes0.clone().unwrap();
        for f in &c.faults {
            let hit = |j: &u16| !req_numbers.is_empty() && req_numbers[pick_index(*j, req_numbers.len())] == n;
            match f {
                Fault::MissingImm(j) if hit(j) => bytes0 = None,
                Fault::CorruptImm(j, cut) if hit(j) => {
                    let full = compress(&tar_bytes, c.zstd);
                    let keep = 1 + pick_index(*cut, full.len().saturating_sub(2).max(1));
                    bytes0 = Some(full[..keep].to_vec());
                }
                Fault::TruncTarImm(j) if hit(j) => {
                    // cut in the middle of the data of the last entry (header present, data short)
                    let last = *offsets.last().unwrap();
                    let keep = (last + 512 + 7).min(tar_bytes.len());
                    bytes0 = Some(compress(&tar_bytes[..keep], c.zstd));
                }
                _ => {}
            }
        }
        if let Some(b) = &bytes0 {
            std::fs::write(mirrors[0].join(format!("{n:05}.{ext}")), b).unwrap();
        }
        match c.mirror2 {
            1 => std::fs::write(mirrors[1].join(format!("{n:05}.{ext}")), &clean_bytes).unwrap(),
            2 => {
                let (t, _) = write_tar(&honest_entries);
                std::fs::write(mirrors[1].join(format!("{n:05}.{ext}")), compress(&t, c.zstd)).unwrap()
            }
            _ => {}
        }
    }

    // ---- ancillary archive -------------------------------------------------------------------
    // a small fixed family of key pairs (the client for each configured key is memoized per worker thread)
    let key_ix = c.seed % 4;
    let signer = signer_from_seed(key_ix, "ancillary-key");
    let other_signer = signer_from_seed((key_ix + 1) % 4, "ancillary-key");
    let ancillary_vk = signer.verification_key().to_json_hex().expect("vk hex");
    let genesis_vk = signer_from_seed(0, "genesis").verification_key().to_json_hex().expect("vk hex");

    let mut files: BTreeMap<String, Vec<u8>> = BTreeMap::new();
    for p in &anc_paths {
        files.insert(p.clone(), content(c.seed, "anc", p));
    }
    if c.anc.big % 3 != 0 {
        if let Some(p) = anc_paths.iter().rev().find(|p| p.starts_with("ledger/")) {
            let size = if c.anc.big % 3 == 1 { 64 * 1024 + 1 } else { 2 * 1024 * 1024 + 4097 };
            let mut data = Vec::with_capacity(size + 32);
            let seed_block = content(c.seed, "anc-big", p);
            let mut ctr = 0u32;
            while data.len() < size {
                let mut h = Sha256::new();
                h.update(&seed_block);
                h.update(ctr.to_le_bytes());
                data.extend_from_slice(&h.finalize());
                ctr += 1;
            }
            data.truncate(size);
            files.insert(p.clone(), data);
            rep.label(if c.anc.big % 3 == 1 { "anc-file:over-64KiB" } else { "anc-file:over-2MiB" });
        }
    }
    let signed_data: BTreeMap<String, String> = files.iter().map(|(k, v)| (k.clone(), sha_hex(v))).collect();
    let signature = signer.sign(&manifest_message(&signed_data)).to_bytes_hex().expect("sig hex");
    let mut data = signed_data.clone();
    let mut sig: Option<String> = Some(signature.clone());
    let mut manifest_override: Option<Option<Vec<u8>>> = None;
    let mut splice_preserved = false;
    let keys: Vec<String> = signed_data.keys().cloned().collect();
    match &c.anc.alter {
        Alter::None => {}
        Alter::ContentChanged(i) => {
            let k = &keys[pick_index(*i, keys.len())];
            files.insert(k.clone(), content(c.seed, "evil", k));
            rep.label("anc-alter:content");
            if k.matches('/').count() >= 2 {
                rep.label("anc-alter:content-in-subdir");
            }
        }
        Alter::ContentChangedHashUpdated(i) => {
            let k = &keys[pick_index(*i, keys.len())];
            let evil = content(c.seed, "evil", k);
            data.insert(k.clone(), sha_hex(&evil));
            files.insert(k.clone(), evil);
            rep.label("anc-alter:content");
        }
        Alter::EntryAdded => {
            let k = "ledger/evil_state".to_string();
            let evil = content(c.seed, "evil", &k);
            data.insert(k.clone(), sha_hex(&evil));
            files.insert(k, evil);
            rep.label("anc-alter:entries");
        }
        Alter::EntryRemoved(i) => {
            let k = &keys[pick_index(*i, keys.len())];
            data.remove(k);
            rep.label("anc-alter:entries");
        }
        Alter::PathRenamed(i) => {
            let k = &keys[pick_index(*i, keys.len())];
            let nk = format!("{k}.moved");
            let v = data.remove(k).unwrap();
            data.insert(nk.clone(), v);
            let f = files.remove(k).unwrap();
            files.insert(nk, f);
            rep.label("anc-alter:entries");
        }
        Alter::TailByteChanged(i) => {
            // prefer the biggest file: the one whose tail is farthest from its head
            let k = if c.anc.big % 3 != 0 { files.iter().max_by_key(|(_, v)| v.len()).map(|(k, _)| k.clone()).unwrap() } else { keys[pick_index(*i, keys.len())].clone() };
            let f = files.get_mut(&k).unwrap();
            let last = f.len() - 1;
            f[last] ^= 0x01;
            rep.label("anc-alter:content");
            rep.label("anc-alter:tail-byte");
        }
        Alter::PathRespelled(i, style) => {
            let k = &keys[pick_index(*i, keys.len())];
            let nk = match style % 4 {
                0 => k.replace('/', "\\"),
                1 => k.to_uppercase(),
                2 => format!("{k} "),
                _ => match k.rsplit_once('/') {
                    Some((d, f)) => format!("{d}\\{f}"),
                    None => format!("\\{k}"),
                },
            };
            let v = data.remove(k).unwrap();
            data.insert(nk.clone(), v);
            let f = files.remove(k).unwrap();
            files.insert(nk, f);
            rep.label("anc-alter:entries");
            rep.label("anc-alter:path-respelled");
        }
        Alter::SigFlip(bit) => {
            let mut raw = hex::decode(&signature).unwrap();
            let b = pick_index(*bit, raw.len() * 8);
            raw[b / 8] ^= 1 << (b % 8);
            sig = Some(hex::encode(raw));
            rep.label("anc-alter:signature");
        }
        Alter::SigRemoved => {
            sig = None;
            rep.label("anc-alter:signature");
        }
        Alter::SigOtherKey(tamper) => {
            if *tamper {
                let k = "ledger/evil_state".to_string();
                let evil = content(c.seed, "evil", &k);
                data.insert(k.clone(), sha_hex(&evil));
                files.insert(k, evil);
            }
            sig = Some(other_signer.sign(&manifest_message(&data)).to_bytes_hex().unwrap());
            rep.label("anc-alter:signature");
        }
        Alter::ManifestMissing => {
            manifest_override = Some(None);
            rep.label("anc-alter:missing-manifest");
        }
        Alter::ManifestGarbage => {
            manifest_override = Some(Some(b"{\"data\": {\"ledger/1\": 12, ".to_vec()));
            rep.label("anc-alter:missing-manifest");
        }
        Alter::FileMissing(i) => {
            let k = &keys[pick_index(*i, keys.len())];
            files.remove(k);
            rep.label("anc-alter:entries");
        }
        Alter::MergeAdjacent(i) => {
            // prefer the last pairs (ledger files), which the immutable clean-up does not touch
            let pairs = keys.len() - 1;
            let ix = pairs - 1 - pick_index(*i, pairs);
            let (k1, k2) = (keys[ix].clone(), keys[ix + 1].clone());
            let v1 = data.remove(&k1).unwrap();
            let v2 = data.remove(&k2).unwrap();
            let nk = format!("{k1}{v1}{k2}");
            data.insert(nk.clone(), v2);
            files.remove(&k1);
            let f2 = files.remove(&k2).unwrap();
            files.insert(nk, f2);
            splice_preserved = manifest_message(&data) == manifest_message(&signed_data);
            rep.label("anc-alter:entries");
            if splice_preserved {
                rep.label("anc-alter:splice-same-signed-bytes");
            }
        }
    }
    let anc_altered = c.anc.alter != Alter::None;
    let manifest_bytes: Option<Vec<u8>> = match manifest_override {
        Some(o) => o,
        None => {
            if anc_altered {
                Some(manifest_json(&data, sig.clone()))
            } else {
                // the honest path serializes the real entity, exactly like the aggregator does
                let m = AncillaryFilesManifest::new(
                    signed_data.iter().map(|(k, v)| (PathBuf::from(k), v.clone())).collect(),
                    signature.as_str().try_into().expect("signature decodes"),
                );
                Some(serde_json::to_vec(&m).unwrap())
            }
        }
    };
    let mut anc_entries: Vec<TEntry> = vec![];
    if c.anc.manifest_first {
        if let Some(m) = &manifest_bytes {
            anc_entries.push(TEntry { path: "ancillary_manifest.json".into(), kind: EKind::File(m.clone()) });
        }
    }
    for (k, v) in &files {
        anc_entries.push(TEntry { path: k.clone(), kind: EKind::File(v.clone()) });
    }
    for x in &c.anc.extras {
        let evil = |rel: &str| TEntry { path: rel.to_string(), kind: EKind::File(content(c.seed, "evil-anc", rel)) };
        rep.label("anc-extra");
        match x {
            AncExtra::LedgerEvil => anc_entries.push(evil("ledger/evil_unlisted")),
            AncExtra::Volatile => anc_entries.push(evil("volatile/blocks-7.dat")),
            AncExtra::Top => anc_entries.push(evil("evil_anc.txt")),
            AncExtra::MarkerClean => anc_entries.push(evil("clean")),
            AncExtra::ImmInRange => {
                let n = req_numbers.first().copied().unwrap_or(0);
                anc_entries.push(evil(&format!("immutable/{}", trio(n)[0])))
            }
            AncExtra::Abs => anc_entries.push(evil(&format!("{world_s}/abs_evil_anc"))),
            AncExtra::DotDot => {
                anc_entries.push(evil("../ledger/dd_evil_anc"));
                anc_entries.push(evil("../../dd_evil_anc2"));
            }
            AncExtra::SymlinkOut => {
                anc_entries.push(TEntry { path: "ledger/link_anc".into(), kind: EKind::Symlink(format!("{world_s}/secret")) })
            }
            AncExtra::NestedManifest => anc_entries.push(evil("ledger/ancillary_manifest.json")),
            AncExtra::OddName(style) => {
                anc_entries.push(evil(&format!("ledger/{}", odd_name(*style, "00437"))));
                rep.label("anc-extra:odd-name");
            }
        }
    }
    if !c.anc.manifest_first {
        if let Some(m) = &manifest_bytes {
            anc_entries.push(TEntry { path: "ancillary_manifest.json".into(), kind: EKind::File(m.clone()) });
        }
    }
    for t in &anc_entries {
        if let Some(p) = normalize(&t.path) {
            carried.entry(p).or_insert(Origin::Anc);
        }
    }
    let (anc_tar, anc_offsets) = write_tar(&anc_entries);
    let anc_clean = compress(&anc_tar, c.zstd);
    let mut anc0 = Some(anc_clean.clone());
    for f in &c.faults {
        match f {
            Fault::MissingAnc => anc0 = None,
            Fault::CorruptAnc(cut) => {
                let keep = 1 + pick_index(*cut, anc_clean.len().saturating_sub(2).max(1));
                anc0 = Some(anc_clean[..keep].to_vec());
            }
            Fault::TruncTarAnc => {
                let last = *anc_offsets.last().unwrap();
                let keep = (last + 512 + 7).min(anc_tar.len());
                anc0 = Some(compress(&anc_tar[..keep], c.zstd));
            }
            _ => {}
        }
    }
    if let Some(b) = &anc0 {
        std::fs::write(mirrors[0].join(format!("ancillary.{ext}")), b).unwrap();
    }
    if c.mirror2 != 0 {
        std::fs::write(mirrors[1].join(format!("ancillary.{ext}")), &anc_clean).unwrap();
    }

    // ---- message -----------------------------------------------------------------------------
    let algo = if c.zstd { "zstandard" } else { "gzip" };
    let n_mirrors = if c.mirror2 != 0 { 2 } else { 1 };
    let mirror_url = |i: usize| match http_base {
        Some(base) => format!("{base}/mirror{i}"),
        None => format!("file://{}", mirrors[i].display()),
    };
    let imm_locations: Vec<serde_json::Value> = (0..n_mirrors)
        .map(|i| {
            serde_json::json!({"type": "cloud_storage",
                "uri": {"Template": format!("{}/{{immutable_file_number}}.{ext}", mirror_url(i))},
                "compression_algorithm": algo})
        })
        .collect();
    let anc_locations: Vec<serde_json::Value> = (0..n_mirrors)
        .map(|i| {
            serde_json::json!({"type": "cloud_storage",
                "uri": format!("{}/ancillary.{ext}", mirror_url(i)),
                "compression_algorithm": algo})
        })
        .collect();
    let (network, magic) = match c.network % 4 {
        0 => ("mainnet", Some("764824073")),
        1 => ("preprod", Some("1")),
        2 => ("preview", Some("2")),
        _ => ("private", None),
    };
    let msg: CardanoDatabaseSnapshotMessage = serde_json::from_value(serde_json::json!({
        "hash": "c19-harness-snapshot",
        "merkle_root": "c8224920b9f5ad7377594eb8a15f34f08eb3103cc5241d57cafc5638403ec7c6",
        "network": network,
        "beacon": {"epoch": 123, "immutable_file_number": beacon},
        "certificate_hash": "f6c01b373bafc4e039844071d5da3ace4a9c0745b9e9560e3e2af01823e9abfb",
        "total_db_size_uncompressed": 100000,
        "digests": {"size_uncompressed": 1024, "locations": [{"type": "aggregator", "uri": "http://127.0.0.1:9/digests"}]},
        "immutables": {"average_size_uncompressed": 2048, "locations": imm_locations},
        "ancillary": {"size_uncompressed": 4096, "locations": anc_locations},
        "cardano_node_version": "10.4.1",
        "created_at": "2025-01-01T00:00:00Z"
    }))
    .expect("snapshot message decodes");

    let vouched: BTreeSet<(String, String)> = if c.include_ancillary && !anc_altered {
        signed_data.iter().map(|(k, v)| (k.clone(), v.clone())).collect()
    } else {
        BTreeSet::new()
    };
    if c.include_ancillary && !anc_altered {
        for (k, v) in &signed_data {
            honest.insert(k.clone(), v.clone());
        }
    }
    World {
        target,
        world,
        msg,
        range,
        requested,
        options: DownloadUnpackOptions {
            allow_override: c.allow_override,
            include_ancillary: c.include_ancillary,
            max_parallel_downloads: 1,
        },
        vouched,
        honest,
        carried,
        anc_must_fail: c.include_ancillary && anc_altered,
        anc_listed: anc_paths,
        ancillary_vk,
        genesis_vk,
        magic,
        splice_preserved,
        fresh_client: false,
        anc_tar,
        anc_offsets,
        mirror0: mirrors[0].clone(),
        ext,
    }
}

// ------------------------------------------------------------------------------------------------
// running the real client
// ------------------------------------------------------------------------------------------------

// the client's own error/warning log lines of the current case (diagnostics only, never part of a verdict)
thread_local! {
    static LOGS: std::cell::RefCell<Vec<String>> = const { std::cell::RefCell::new(Vec::new()) };
}

struct CaptureDrain;

struct KvText(String);

impl slog::Serializer for KvText {
    fn emit_arguments(&mut self, key: slog::Key, val: &std::fmt::Arguments) -> slog::Result {
        use std::fmt::Write as _;
        let _ = write!(self.0, " {key}={val}");
        Ok(())
    }
}

impl slog::Drain for CaptureDrain {
    type Ok = ();
    type Err = slog::Never;
    fn log(&self, record: &slog::Record, _values: &slog::OwnedKVList) -> Result<(), slog::Never> {
        if record.level().is_at_least(slog::Level::Error) {
            use slog::KV;
            let mut kv = KvText(String::new());
            let _ = record.kv().serialize(record, &mut kv);
            let line: String = format!("{}{}", record.msg(), kv.0).chars().take(700).collect();
            LOGS.with(|l| l.borrow_mut().push(line));
        }
        Ok(())
    }
}

fn take_logs() -> String {
    LOGS.with(|l| l.borrow_mut().drain(..).collect::<Vec<_>>().join(" | "))
}

thread_local! {
    /// memoized clients (one per configured ancillary verification key): building one loads the system
    /// certificate store twice, which would dominate the cost of a case. They hold no per-download state.
    static CLIENTS: std::cell::RefCell<BTreeMap<String, Arc<CardanoDatabaseClient>>> = const { std::cell::RefCell::new(BTreeMap::new()) };
}

fn client_for(w: &World) -> Result<Arc<CardanoDatabaseClient>, String> {
    CLIENTS.with(|cache| {
        if !w.fresh_client {
            if let Some(c) = cache.borrow().get(&w.ancillary_vk) {
                return Ok(c.clone());
            }
        }
        let logger = slog::Logger::root(std::sync::Mutex::new(CaptureDrain).fuse(), slog::o!());
        let downloader =
            HttpFileDownloader::new(FeedbackSender::new(&[]), logger.clone()).map_err(|e| format!("HARNESS downloader: {e:#}"))?;
        let client = ClientBuilder::new(AggregatorDiscoveryType::Url("http://127.0.0.1:9/aggregator".to_string()))
            .set_genesis_verification_key(GenesisVerificationKey::JsonHex(w.genesis_vk.clone()))
            // same stack as ClientBuilder's default (retry wrapper around the HTTP downloader), without the 5 s pauses
            .with_http_file_downloader(Arc::new(RetryDownloader::new(
                Arc::new(downloader),
                FileDownloadRetryPolicy { attempts: 3, delay_between_attempts: std::time::Duration::ZERO },
            )))
            .set_ancillary_verification_key(w.ancillary_vk.clone())
            .with_logger(logger)
            .build()
            .map_err(|e| format!("HARNESS client build: {e:#}"))?;
        let c = client.cardano_database_v2();
        if !w.fresh_client {
            cache.borrow_mut().insert(w.ancillary_vk.clone(), c.clone());
        }
        Ok(c)
    })
}

fn run_client(w: &World, after_call: impl FnOnce()) -> Result<Result<(), String>, String> {
    let _ = take_logs();
    catch(|| {
        let rt = tokio::runtime::Builder::new_current_thread().enable_all().build().expect("runtime");
        let res = rt.block_on(async {
            let client = client_for(w)?;
            client.download_unpack(&w.msg, &w.range, &w.target, w.options).await.map_err(|e| format!("{e:#}"))
        });
        after_call();
        // dropping the runtime waits for the blocking unpack threads that may still be running after an abort
        drop(rt);
        res
    })
}

// ------------------------------------------------------------------------------------------------
// loopback HTTP mirror (exercises the streaming branch of HttpFileDownloader)
// ------------------------------------------------------------------------------------------------

struct MirrorServer {
    base: String,
    stop: Arc<std::sync::atomic::AtomicBool>,
    handle: Option<std::thread::JoinHandle<()>>,
}

impl MirrorServer {
    fn start(root: &Path) -> Option<MirrorServer> {
        use std::io::Read;
        use std::sync::atomic::{AtomicBool, Ordering};
        let listener = std::net::TcpListener::bind("127.0.0.1:0").ok()?;
        listener.set_nonblocking(true).ok()?;
        let port = listener.local_addr().ok()?.port();
        let stop = Arc::new(AtomicBool::new(false));
        let stop2 = stop.clone();
        let root = root.to_path_buf();
        let handle = std::thread::spawn(move || {
            let mut workers = vec![];
            while !stop2.load(Ordering::SeqCst) {
                match listener.accept() {
                    Ok((mut stream, _)) => {
                        let root = root.clone();
                        workers.push(std::thread::spawn(move || {
                            let _ = stream.set_nonblocking(false);
                            let _ = stream.set_read_timeout(Some(std::time::Duration::from_secs(5)));
                            let mut req = Vec::new();
                            let mut buf = [0u8; 1024];
                            while !req.windows(4).any(|w| w == b"\r\n\r\n") && req.len() < 16384 {
                                match stream.read(&mut buf) {
                                    Ok(0) | Err(_) => break,
                                    Ok(n) => req.extend_from_slice(&buf[..n]),
                                }
                            }
                            let line = String::from_utf8_lossy(&req);
                            let path = line.split_whitespace().nth(1).unwrap_or("/").trim_start_matches('/').to_string();
                            let ok_name = path.split('/').count() == 2
                                && (path.starts_with("mirror0/") || path.starts_with("mirror1/"))
                                && !path.contains("..");
                            let body = if ok_name { std::fs::read(root.join(&path)).ok() } else { None };
                            match body {
                                Some(b) => {
                                    let _ = stream.write_all(
                                        format!("HTTP/1.1 200 OK\r\nContent-Type: application/octet-stream\r\nContent-Length: {}\r\nConnection: close\r\n\r\n", b.len())
                                            .as_bytes(),
                                    );
                                    // several small writes: the client sees the body as a stream of chunks
                                    for piece in b.chunks(700) {
                                        if stream.write_all(piece).is_err() {
                                            break;
                                        }
                                        let _ = stream.flush();
                                    }
                                }
                                None => {
                                    let _ = stream.write_all(b"HTTP/1.1 404 Not Found\r\nContent-Length: 0\r\nConnection: close\r\n\r\n");
                                }
                            }
                            let _ = stream.shutdown(std::net::Shutdown::Both);
                        }));
                    }
                    Err(_) => std::thread::sleep(std::time::Duration::from_micros(300)),
                }
            }
            for w in workers {
                let _ = w.join();
            }
        });
        Some(MirrorServer { base: format!("http://127.0.0.1:{port}"), stop, handle: Some(handle) })
    }
}

impl Drop for MirrorServer {
    fn drop(&mut self) {
        self.stop.store(true, std::sync::atomic::Ordering::SeqCst);
        if let Some(h) = self.handle.take() {
            let _ = h.join();
        }
    }
}

// ------------------------------------------------------------------------------------------------
// oracle
// ------------------------------------------------------------------------------------------------

struct Verdicts {
    list: Vec<(String, String)>,
}

impl Verdicts {
    fn add(&mut self, key: &str, what: String) {
        self.list.push((key.to_string(), what));
    }
}

fn is_requested_immutable(path: &str, req: Option<(u64, u64)>) -> bool {
    let Some(name) = path.strip_prefix("immutable/") else { return false };
    let Some((lo, hi)) = req else { return false };
    (lo..=hi).any(|n| trio(n).iter().any(|t| t == name))
}

fn looks_like_immutable_file(path: &str) -> bool {
    let Some(name) = path.strip_prefix("immutable/") else { return false };
    let Some((num, ext)) = name.split_once('.') else { return false };
    num.len() >= 5 && num.bytes().all(|b| b.is_ascii_digit()) && EXTS.contains(&ext)
}

fn judge(
    c: &Case,
    w: &World,
    before: &BTreeMap<String, Node>,
    after: &BTreeMap<String, Node>,
    world_before: &BTreeMap<String, Node>,
    world_after: &BTreeMap<String, Node>,
    result: &Result<(), String>,
    abortable: bool,
    v: &mut Verdicts,
) {
    let ok = result.is_ok();
    let beacon = c.beacon.clamp(1, 6) as u64;
    let allowed = |path: &str, node: &Node| -> bool {
        if is_requested_immutable(path, w.requested) && !matches!(node, Node::Dir) {
            return true;
        }
        if ok {
            if path == "clean" && *node == Node::File(sha_hex(b"")) {
                return true;
            }
            if let Some(m) = w.magic {
                if path == "protocolMagicId" && *node == Node::File(sha_hex(m.as_bytes())) {
                    return true;
                }
            }
        }
        if let Node::File(h) = node {
            if w.vouched.contains(&(path.to_string(), h.clone())) {
                return true;
            }
        }
        false
    };
    let attribute = |path: &str| -> &'static str {
        let top = path.split('/').next().unwrap_or("");
        if top.starts_with("ancillary-") && !before.contains_key(top) {
            // several downloads in flight + one of them failing = the documented abort path (narrower key)
            return if abortable && !ok { "ancillary-temp-dir-left-after-abort" } else { "ancillary-temp-dir-left-behind" };
        }
        match w.carried.get(path) {
            Some(Origin::Imm) => {
                if looks_like_immutable_file(path) {
                    // what the client's clean-up tolerates: numbers 0..=beacon (+1 with the ancillary option) and
                    // names that existed before the download (these are overwritten in place)
                    let n: u64 = path["immutable/".len()..].split('.').next().and_then(|x| x.parse().ok()).unwrap_or(u64::MAX);
                    if n <= beacon + c.include_ancillary as u64 || before.contains_key(path) {
                        "immutable-file-outside-requested-range"
                    } else {
                        "immutable-file-beyond-beacon-kept"
                    }
                } else if path.starts_with("immutable/") {
                    "unexpected-entry-in-immutable-dir-kept"
                } else {
                    "immutable-archive-writes-outside-immutable-dir"
                }
            }
            Some(Origin::Anc) => {
                if w.anc_must_fail {
                    if matches!(c.anc.alter, Alter::MergeAdjacent(_)) && w.splice_preserved {
                        "manifest-entry-splicing-accepted"
                    } else {
                        "ancillary-file-kept-after-failed-verification"
                    }
                } else if !c.include_ancillary {
                    "ancillary-file-without-ancillary-option"
                } else {
                    "unlisted-ancillary-file-kept"
                }
            }
            None => "unexpected-file-in-target",
        }
    };

    // (3) nothing outside of the target directory
    if world_before != world_after {
        let mut diff = vec![];
        for (p, n) in world_after {
            if world_before.get(p) != Some(n) {
                diff.push(format!("{p}={n:?}"));
            }
        }
        for p in world_before.keys() {
            if !world_after.contains_key(p) {
                diff.push(format!("{p} removed"));
            }
        }
        // narrower key for the one known way out: the final move of verified ancillary files follows a symlink
        let via_symlink = matches!(after.get("ledger"), Some(Node::Symlink(_))) && diff.iter().all(|d| d.starts_with("ldir/"));
        v.add(
            if via_symlink { "ancillary-move-follows-symlink-out-of-target" } else { "file-written-outside-target-dir" },
            format!("the directory around the target changed: {}", diff.join(", ")),
        );
    }
    // (1) everything new or changed must be allowed
    let mut offenders: BTreeMap<&'static str, Vec<String>> = BTreeMap::new();
    for (path, node) in after {
        if matches!(node, Node::Dir) {
            continue;
        }
        if before.get(path) == Some(node) {
            continue;
        }
        if allowed(path, node) {
            continue;
        }
        let was = match before.get(path) {
            None => String::new(),
            Some(b) => format!(" (before: {b:?})"),
        };
        offenders.entry(attribute(path)).or_default().push(format!("`{path}` = {node:?}{was}"));
    }
    for (key, paths) in offenders {
        let n = paths.len();
        let shown: Vec<String> = paths.into_iter().take(5).collect();
        v.add(
            key,
            format!(
                "after download_unpack (result {}) the target holds {n} file(s) that are neither a requested immutable file, a bootstrap marker nor vouched by the signed manifest: {}",
                if ok { "Ok".to_string() } else { format!("Err({})", short(result)) },
                shown.join(", ")
            ),
        );
    }
    // (2) pre-existing user files are untouched
    for (path, node) in before {
        if matches!(node, Node::Dir) {
            continue;
        }
        match after.get(path) {
            Some(n) if n == node => {}
            Some(Node::Dir) | None => {
                v.add("user-file-removed", format!("pre-existing `{path}` ({node:?}) no longer exists after download_unpack"));
            }
            Some(_) => {} // overwritten: either allowed or already reported by (1)
        }
    }
}

fn short(r: &Result<(), String>) -> String {
    match r {
        Ok(()) => "Ok".into(),
        Err(e) => e.chars().take(160).collect(),
    }
}

/// Cases in which a task can fail (the others are then aborted at an arbitrary point) or in which two archives
/// write the same path are run with `max_parallel_downloads = 1` (tasks then run strictly in the order immutables
/// ascending, ancillary last), so that the verdict is a function of the case. The abort of in-flight downloads
/// is explored separately, with explicit synchronisation, in the `abort-inflight` section.
fn order_sensitive(c: &Case) -> bool {
    let free = |k: &Extra| {
        matches!(
            k,
            Extra::LedgerFlat
                | Extra::LedgerNested
                | Extra::Volatile
                | Extra::TopFile
                | Extra::TopDirFile
                | Extra::NestedImm
                | Extra::ImmOdd
                | Extra::ImmOddName(_)
                | Extra::MarkerClean
                | Extra::MarkerMagic
                | Extra::ManifestName
                | Extra::AbsWorld
                | Extra::DotDot
                | Extra::DotDotDeep
                | Extra::SymlinkOut
        )
    };
    let has = |k: Extra| c.imm_extras.iter().any(|e| e.kind == k);
    !c.faults.is_empty()
        || c.anc.alter != Alter::None
        || c.imm_extras.iter().any(|e| !free(&e.kind))
        || (has(Extra::LedgerFlat) && has(Extra::LedgerNested))
        // two archives unpacked concurrently must not create the same path (remove-then-create races inside tar)
        || (0..c.imm_extras.len()).any(|i| c.imm_extras[..i].iter().any(|e| e.kind == c.imm_extras[i].kind))
}

fn case_fn(c: &Case, known: &BTreeSet<String>) -> Report {
    evaluate(c, known).0
}

/// returns the report and the keys of all violated classes
fn evaluate(c: &Case, known: &BTreeSet<String>) -> (Report, BTreeSet<String>) {
    let mut rep = Report::new();
    let scratch = Scratch::new("c19");
    let server = if c.http { MirrorServer::start(scratch.path()) } else { None };
    if c.http && server.is_none() {
        rep.discard("no loopback port available");
        return (rep, BTreeSet::new());
    }
    if c.http {
        rep.label("transport:http");
    }
    let mut w = build_world(c, scratch.path(), server.as_ref().map(|s| s.base.as_str()), &mut rep);
    w.fresh_client = c.http;
    let sequential = order_sensitive(c);
    w.options.max_parallel_downloads = if sequential { 1 } else { c.parallel.max(1) as usize };

    rep.label(if c.include_ancillary { "option:ancillary" } else { "option:no-ancillary" });
    rep.label(match c.range {
        RangeSpec::Full => "range:full",
        RangeSpec::From(_) => "range:from",
        RangeSpec::UpTo(_) => "range:upto",
        RangeSpec::Inner(..) => "range:inner",
        RangeSpec::Invalid => "range:invalid",
    });
    for f in &c.faults {
        rep.label(match f {
            Fault::MissingImm(_) | Fault::MissingAnc => "fault:missing-location",
            Fault::CorruptImm(..) | Fault::CorruptAnc(_) | Fault::TruncTarImm(_) | Fault::TruncTarAnc => "fault:corrupt-archive",
            Fault::MoveBlockedByDir | Fault::LedgerIsFile => "fault:move-blocked",
        });
    }
    if c.mirror2 != 0 {
        rep.label("two-mirrors");
    }

    let before = walk(&w.target);
    let world_before: BTreeMap<String, Node> =
        walk(&w.world).into_iter().filter(|(p, _)| p != "db" && !p.starts_with("db/")).collect();

    let result = match run_client(&w, || ()) {
        Ok(r) => r,
        Err(panic) => {
            rep.label("client-panicked");
            Err(format!("panic: {panic}"))
        }
    };
    if let Err(e) = &result {
        if e.starts_with("HARNESS") {
            rep.violation("harness-error", e.clone());
            return (rep, BTreeSet::new());
        }
    }
    let after = walk(&w.target);
    let world_after: BTreeMap<String, Node> =
        walk(&w.world).into_iter().filter(|(p, _)| p != "db" && !p.starts_with("db/")).collect();

    rep.label(if result.is_ok() { "result:ok" } else { "result:err" });
    if result.is_err() && before == after {
        rep.label("result:err-target-unchanged");
    }
    if c.include_ancillary && w.anc_listed.iter().any(|p| p.starts_with("ledger/") && after.contains_key(p) && !before.contains_key(p)) {
        rep.label("anc-files-restored");
    }

    let mut v = Verdicts { list: vec![] };
    judge(c, &w, &before, &after, &world_before, &world_after, &result, w.options.max_parallel_downloads > 1, &mut v);

    // positive control
    let transport_only = c.faults.iter().all(|f| !matches!(f, Fault::MoveBlockedByDir | Fault::LedgerIsFile));
    let refusal_possible = !c.allow_override
        && (before.contains_key("immutable")
            || (c.include_ancillary && (before.contains_key("ledger") || before.contains_key("volatile"))));
    let compatible = match w.requested {
        None => false,
        Some((_, hi)) => !c.include_ancillary || hi == c.beacon.clamp(1, 6) as u64,
    };
    let honest_case = c.imm_extras.is_empty()
        && c.anc.alter == Alter::None
        && c.anc.extras.is_empty()
        && transport_only
        && (c.faults.is_empty() || c.mirror2 != 0);
    if honest_case && compatible && !refusal_possible {
        rep.label("honest-expected-ok");
        match &result {
            Err(e) => v.add(
                "honest-download-failed",
                format!("a download from honest mirrors failed: {} [client log: {}]", e.chars().take(300).collect::<String>(), take_logs()),
            ),
            Ok(()) => {
                let mut expected: BTreeMap<String, Node> = before.clone();
                for (p, h) in &w.honest {
                    expected.insert(p.clone(), Node::File(h.clone()));
                }
                expected.insert("clean".into(), Node::File(sha_hex(b"")));
                if let Some(m) = w.magic {
                    expected.insert("protocolMagicId".into(), Node::File(sha_hex(m.as_bytes())));
                }
                let files = |m: &BTreeMap<String, Node>| -> BTreeMap<String, Node> {
                    m.iter().filter(|(_, n)| !matches!(n, Node::Dir)).map(|(k, n)| (k.clone(), n.clone())).collect()
                };
                let (e, a) = (files(&expected), files(&after));
                if e != a {
                    let missing: Vec<_> = e.iter().filter(|(k, n)| a.get(*k) != Some(n)).map(|(k, _)| k.clone()).collect();
                    let extra: Vec<_> = a.iter().filter(|(k, n)| e.get(*k) != Some(n)).map(|(k, _)| k.clone()).collect();
                    v.add("honest-download-wrong-files", format!("honest download: missing/different {missing:?}, unexpected {extra:?}"));
                } else {
                    rep.label("honest-ok");
                }
            }
        }
    }
    if !compatible || refusal_possible {
        rep.label("request-refusable");
    }
    if w.anc_must_fail && result.is_err() {
        rep.label("anc-verify-failed");
    }
    if c.include_ancillary && !w.anc_must_fail && result.is_ok() {
        rep.label("anc-verified-ok");
    }

    // non-trivial: >= 1 out-of-policy entry, or a manifest alteration, or an injected fault
    if !c.imm_extras.is_empty() || c.anc.alter != Alter::None || !c.anc.extras.is_empty() || !c.faults.is_empty() {
        let mut kinds: Vec<String> = c.imm_extras.iter().map(|e| format!("{:?}{}", e.kind, if e.first { "<" } else { ">" })).collect();
        kinds.sort();
        rep.nontrivial(format!(
            "b{} {:?} anc={} ov={} m2={} pre={:?} imm={kinds:?} alter={:?} ax={:?} mf={} faults={:?} L{}",
            c.beacon, c.range, c.include_ancillary, c.allow_override, c.mirror2, c.pre, c.anc.alter, c.anc.extras,
            c.anc.manifest_first, c.faults, c.anc.layout % 3
        ));
    }

    // report the first violation that is not an open known finding (keep exploring around known ones)
    if let Some((k, what)) = v.list.iter().find(|(k, _)| !known.contains(k)).or(v.list.first()) {
        let all: BTreeSet<&str> = v.list.iter().map(|(k, _)| k.as_str()).collect();
        rep.violation(k.clone(), format!("{what} [all violated classes in this case: {all:?}] case={c:?}"));
    }
    let keys = v.list.iter().map(|(k, _)| k.clone()).collect();
    (rep, keys)
}

fn witness_base() -> Case {
    Case {
        seed: 7,
        beacon: 2,
        range: RangeSpec::Full,
        include_ancillary: false,
        allow_override: false,
        zstd: true,
        parallel: 1,
        network: 2,
        mirror2: 0,
        pre: vec![],
        imm_extras: vec![],
        anc: AncSpec { layout: 1, alter: Alter::None, extras: vec![], manifest_first: false, big: 0 },
        faults: vec![],
        http: false,
    }
}

// ------------------------------------------------------------------------------------------------
// abort of an in-flight ancillary download (explicitly synchronised fault sequence)
// ------------------------------------------------------------------------------------------------

/// The mirror serves the ancillary archive slowly (a FIFO fed by the harness: the first `stall_after` entries, then
/// it stalls) and the archive of one immutable file turns out to be garbage *while* the ancillary download is in
/// flight (the harness feeds that FIFO only once it has seen unpacked ancillary entries on disk). The client then
/// aborts all running downloads. Same oracle as everywhere else.
#[derive(Clone, Debug, Serialize, Deserialize)]
struct AbortCase {
    seed: u64,
    beacon: u8,
    fail_ix: u16,
    stall_after: u16,
    layout: u8,
    evil: bool,
    manifest_first: bool,
    user_file: bool,
}

const O_NONBLOCK_LINUX: i32 = 0o4000;

fn open_fifo_writer(path: &Path, give_up: &std::sync::atomic::AtomicBool) -> Option<std::fs::File> {
    use std::os::unix::fs::OpenOptionsExt;
    use std::sync::atomic::Ordering;
    // a non-blocking open for writing fails (ENXIO) until the client has opened the FIFO for reading
    for _ in 0..20_000 {
        if give_up.load(Ordering::SeqCst) {
            return None;
        }
        match std::fs::OpenOptions::new().write(true).custom_flags(O_NONBLOCK_LINUX).open(path) {
            Ok(f) => return Some(f),
            Err(_) => std::thread::sleep(std::time::Duration::from_micros(500)),
        }
    }
    None
}

fn temp_dir_has_file(target: &Path) -> bool {
    let Ok(rd) = std::fs::read_dir(target) else { return false };
    for e in rd.flatten() {
        if e.file_name().to_string_lossy().starts_with("ancillary-") {
            let m = walk(&e.path());
            if m.values().any(|n| !matches!(n, Node::Dir)) {
                return true;
            }
        }
    }
    false
}

fn abort_case_fn(a: &AbortCase, known: &BTreeSet<String>) -> Report {
    use std::sync::atomic::{AtomicBool, Ordering};
    let mut rep = Report::new();
    let base = Case {
        seed: a.seed,
        beacon: a.beacon.clamp(1, 4),
        range: RangeSpec::Full,
        include_ancillary: true,
        allow_override: false,
        zstd: true,
        parallel: 20,
        network: 2,
        mirror2: 0,
        pre: if a.user_file { vec![Pre::TopNote] } else { vec![] },
        imm_extras: vec![],
        anc: AncSpec {
            layout: a.layout,
            alter: if a.evil { Alter::SigOtherKey(true) } else { Alter::None },
            extras: vec![],
            manifest_first: a.manifest_first,
            big: 0,
        },
        faults: vec![],
        http: false,
    };
    let scratch = Scratch::new("c19a");
    let mut w = build_world(&base, scratch.path(), None, &mut rep);
    w.options.max_parallel_downloads = 20;
    let fail_n = pick_index(a.fail_ix, base.beacon as usize + 1);
    let anc_fifo = w.mirror0.join(format!("ancillary.{}", w.ext));
    let imm_fifo = w.mirror0.join(format!("{fail_n:05}.{}", w.ext));
    for f in [&anc_fifo, &imm_fifo] {
        let _ = std::fs::remove_file(f);
        let st = std::process::Command::new("mkfifo").arg(f).status();
        if !matches!(st, Ok(s) if s.success()) {
            rep.discard("mkfifo not available");
            return rep;
        }
    }
    // entries delivered before the mirror stalls: at least one, never the whole archive
    let k = 1 + pick_index(a.stall_after, w.anc_offsets.len() - 1);
    let prefix = compress(&w.anc_tar[..w.anc_offsets[k]], true);

    let before = walk(&w.target);
    let world_before: BTreeMap<String, Node> =
        walk(&w.world).into_iter().filter(|(p, _)| p != "db" && !p.starts_with("db/")).collect();

    let release = AtomicBool::new(false);
    let inflight = AtomicBool::new(false);
    let mut result = Ok(Ok(()));
    std::thread::scope(|s| {
        s.spawn(|| {
            if let Some(mut f) = open_fifo_writer(&anc_fifo, &release) {
                let _ = f.write_all(&prefix);
                let _ = f.flush();
                while !release.load(Ordering::SeqCst) {
                    std::thread::sleep(std::time::Duration::from_micros(500));
                }
                drop(f);
            }
        });
        s.spawn(|| {
            // every (re)try of the client gets garbage, the first one only once the ancillary download is in flight
            while let Some(mut f) = open_fifo_writer(&imm_fifo, &release) {
                for _ in 0..10_000 {
                    if temp_dir_has_file(&w.target) {
                        inflight.store(true, Ordering::SeqCst);
                        break;
                    }
                    if release.load(Ordering::SeqCst) {
                        break;
                    }
                    std::thread::sleep(std::time::Duration::from_micros(500));
                }
                let _ = f.write_all(b"this is not a compressed tar archive, the mirror serves garbage for this immutable file");
                drop(f);
                // let the reader see EOF before offering the next attempt
                std::thread::sleep(std::time::Duration::from_millis(2));
            }
        });
        result = run_client(&w, || release.store(true, Ordering::SeqCst));
        release.store(true, Ordering::SeqCst);
    });
    let result = match result {
        Ok(r) => r,
        Err(panic) => {
            rep.label("client-panicked");
            Err(format!("panic: {panic}"))
        }
    };
    if let Err(e) = &result {
        if e.starts_with("HARNESS") {
            rep.violation("harness-error", e.clone());
            return rep;
        }
    }
    let after = walk(&w.target);
    let world_after: BTreeMap<String, Node> =
        walk(&w.world).into_iter().filter(|(p, _)| p != "db" && !p.starts_with("db/")).collect();
    if !inflight.load(Ordering::SeqCst) {
        rep.label("abort:ancillary-not-inflight");
        rep.discard("the ancillary download was not in flight when the immutable download failed");
        return rep;
    }
    rep.label("abort:ancillary-inflight");
    rep.label(if result.is_ok() { "result:ok" } else { "result:err" });
    rep.nontrivial(format!("abort b{} fail{} k{} L{} evil={} mf={} uf={}", base.beacon, fail_n, k, a.layout % 3, a.evil, a.manifest_first, a.user_file));
    let mut v = Verdicts { list: vec![] };
    judge(&base, &w, &before, &after, &world_before, &world_after, &result, true, &mut v);
    if result.is_ok() {
        v.add("download-ok-despite-garbage-immutable", format!("download_unpack returned Ok although the only location of immutable {fail_n} served garbage"));
    }
    if let Some((k, what)) = v.list.iter().find(|(k, _)| !known.contains(k)).or(v.list.first()) {
        rep.violation(k.clone(), format!("{what} case={a:?}"));
    }
    rep
}

fn abort_cases(seed: u64, n: u32) -> Vec<AbortCase> {
    (0..n as u64)
        .map(|i| {
            let r = vcore::mix(seed, 0xAB07 + i);
            AbortCase {
                seed: vcore::mix(r, 1),
                beacon: 1 + (i % 3) as u8,
                fail_ix: (r >> 8) as u16,
                stall_after: (r >> 24) as u16,
                layout: ((r >> 40) % 3) as u8,
                evil: i % 2 == 1,
                manifest_first: (r >> 44) & 1 == 1,
                user_file: (r >> 45) & 1 == 1,
            }
        })
        .collect()
}

// ------------------------------------------------------------------------------------------------
// strategies
// ------------------------------------------------------------------------------------------------

fn range_strategy() -> impl Strategy<Value = RangeSpec> {
    prop_oneof![
        3 => Just(RangeSpec::Full),
        3 => any::<u16>().prop_map(RangeSpec::From),
        2 => any::<u16>().prop_map(RangeSpec::UpTo),
        3 => (any::<u16>(), any::<u16>()).prop_map(|(a, b)| RangeSpec::Inner(a, b)),
    ]
}

fn pre_strategy(conflicting: bool) -> impl Strategy<Value = Vec<Pre>> {
    let safe = prop_oneof![Just(Pre::TopNote), Just(Pre::UserDir), Just(Pre::MarkerClean), Just(Pre::MarkerMagic)];
    let any_pre = prop_oneof![
        Just(Pre::TopNote),
        Just(Pre::UserDir),
        Just(Pre::MarkerClean),
        Just(Pre::MarkerMagic),
        Just(Pre::ImmInRange),
        Just(Pre::ImmOutside),
        Just(Pre::ImmOdd),
        Just(Pre::LedgerOld),
        Just(Pre::VolatileOld),
    ];
    if conflicting {
        prop::collection::vec(any_pre, 0..4).boxed()
    } else {
        prop::collection::vec(safe, 0..3).boxed()
    }
}

fn extra_kind_strategy() -> impl Strategy<Value = Extra> {
    prop_oneof![
        3 => Just(Extra::LedgerFlat),
        2 => Just(Extra::LedgerNested),
        3 => Just(Extra::Volatile),
        2 => Just(Extra::TopFile),
        1 => Just(Extra::TopDirFile),
        2 => Just(Extra::NestedImm),
        2 => Just(Extra::ImmOdd),
        3 => any::<u8>().prop_map(Extra::ImmOddName),
        2 => Just(Extra::MarkerClean),
        2 => Just(Extra::MarkerMagic),
        1 => Just(Extra::MarkerDir),
        1 => Just(Extra::ManifestName),
        5 => (any::<u16>(), 0u8..3).prop_map(|(n, x)| Extra::ImmNumber(n, x)),
        2 => any::<u16>().prop_map(Extra::ShadowVouched),
        2 => Just(Extra::AbsWorld),
        2 => Just(Extra::DotDot),
        1 => Just(Extra::DotDotDeep),
        1 => Just(Extra::SymlinkOut),
        1 => Just(Extra::SymlinkNamedImm),
        1 => Just(Extra::SymlinkDirThenWrite),
        2 => Just(Extra::SymlinkLedgerDivert),
        1 => Just(Extra::HardlinkUser),
    ]
}

fn imm_extras_strategy(max: usize) -> impl Strategy<Value = Vec<ImmExtra>> {
    prop::collection::vec(
        (any::<u16>(), extra_kind_strategy(), any::<bool>()).prop_map(|(arch, kind, first)| ImmExtra { arch, kind, first }),
        0..=max,
    )
}

fn alter_strategy() -> impl Strategy<Value = Alter> {
    prop_oneof![
        3 => any::<u16>().prop_map(Alter::ContentChanged),
        2 => any::<u16>().prop_map(Alter::ContentChangedHashUpdated),
        2 => (40000u16..=65535).prop_map(Alter::ContentChanged),
        2 => Just(Alter::EntryAdded),
        2 => any::<u16>().prop_map(Alter::EntryRemoved),
        1 => any::<u16>().prop_map(Alter::PathRenamed),
        2 => (any::<u16>(), any::<u8>()).prop_map(|(i, s)| Alter::PathRespelled(i, s)),
        2 => any::<u16>().prop_map(Alter::TailByteChanged),
        2 => any::<u16>().prop_map(Alter::SigFlip),
        2 => Just(Alter::SigRemoved),
        2 => any::<bool>().prop_map(Alter::SigOtherKey),
        2 => Just(Alter::ManifestMissing),
        1 => Just(Alter::ManifestGarbage),
        1 => any::<u16>().prop_map(Alter::FileMissing),
        2 => any::<u16>().prop_map(Alter::MergeAdjacent),
    ]
}

fn anc_extras_strategy() -> impl Strategy<Value = Vec<AncExtra>> {
    prop::collection::vec(
        prop_oneof![
            Just(AncExtra::LedgerEvil),
            Just(AncExtra::Volatile),
            Just(AncExtra::Top),
            Just(AncExtra::MarkerClean),
            Just(AncExtra::ImmInRange),
            Just(AncExtra::Abs),
            Just(AncExtra::DotDot),
            Just(AncExtra::SymlinkOut),
            Just(AncExtra::NestedManifest),
            any::<u8>().prop_map(AncExtra::OddName),
        ],
        0..3,
    )
}

fn anc_strategy(altered: bool, with_extras: bool) -> impl Strategy<Value = AncSpec> {
    let alter = if altered { alter_strategy().boxed() } else { Just(Alter::None).boxed() };
    let extras = if with_extras { anc_extras_strategy().boxed() } else { Just(vec![]).boxed() };
    let big = prop_oneof![17 => Just(0u8), 2 => Just(1u8), 1 => Just(2u8)];
    (0u8..3, alter, extras, any::<bool>(), big).prop_map(|(layout, alter, extras, manifest_first, big)| AncSpec { layout, alter, extras, manifest_first, big })
}

fn fault_strategy() -> impl Strategy<Value = Fault> {
    prop_oneof![
        3 => any::<u16>().prop_map(Fault::MissingImm),
        3 => (any::<u16>(), any::<u16>()).prop_map(|(j, c)| Fault::CorruptImm(j, c)),
        3 => any::<u16>().prop_map(Fault::TruncTarImm),
        2 => Just(Fault::MissingAnc),
        2 => any::<u16>().prop_map(Fault::CorruptAnc),
        2 => Just(Fault::TruncTarAnc),
        2 => Just(Fault::MoveBlockedByDir),
        1 => Just(Fault::LedgerIsFile),
    ]
}

#[derive(Clone, Copy, PartialEq)]
enum Flavor {
    Honest,
    Archives,
    Faults,
}

fn case_strategy(flavor: Flavor) -> impl Strategy<Value = Case> {
    let base = (
        any::<u64>(),
        1u8..=5,
        range_strategy(),
        prop::bool::weighted(0.6),
        prop::bool::weighted(0.6),
        any::<bool>(),
        prop_oneof![Just(1u8), Just(2u8), Just(20u8)],
        0u8..4,
    );
    base.prop_flat_map(move |(seed, beacon, range0, include_ancillary, allow_override, zstd, parallel, network)| {
        // most ancillary downloads use a range that contains the beacon (the only compatible ones)
        let range = (Just(range0), 0u8..10).prop_map(move |(r, roll)| {
            if include_ancillary && roll < 8 {
                match r {
                    RangeSpec::UpTo(_) => RangeSpec::Full,
                    RangeSpec::Inner(a, _) => RangeSpec::From(a),
                    other => other,
                }
            } else if roll == 9 && flavor == Flavor::Honest {
                RangeSpec::Invalid
            } else {
                r
            }
        });
        let (n_extras, altered, anc_extras) = match flavor {
            Flavor::Honest => (0usize, false, false),
            Flavor::Archives => (3, true, true),
            Flavor::Faults => (1, false, true),
        };
        let altered_s = if altered { prop::bool::weighted(0.55).boxed() } else { Just(false).boxed() };
        let faults = match flavor {
            Flavor::Faults => prop::collection::vec(fault_strategy(), 1..3).boxed(),
            _ => Just(vec![]).boxed(),
        };
        let mirror2 = match flavor {
            Flavor::Faults => (0u8..3).boxed(),
            _ => prop_oneof![4 => Just(0u8), 1 => Just(1u8)].boxed(),
        };
        (range, pre_strategy(allow_override), imm_extras_strategy(n_extras), altered_s, faults, mirror2, prop::bool::weighted(0.06)).prop_flat_map(
            move |(range, pre, imm_extras, altered, faults, mirror2, http)| {
                let pre = pre.clone();
                let imm_extras = imm_extras.clone();
                let faults = faults.clone();
                let range = range.clone();
                anc_strategy(altered, anc_extras).prop_map(move |anc| Case {
                    seed,
                    beacon,
                    range: range.clone(),
                    include_ancillary,
                    allow_override,
                    zstd,
                    parallel,
                    network,
                    mirror2,
                    pre: pre.clone(),
                    imm_extras: imm_extras.clone(),
                    anc,
                    faults: faults.clone(),
                    http,
                })
            },
        )
    })
}

// ------------------------------------------------------------------------------------------------
// entry point
// ------------------------------------------------------------------------------------------------

const KEYS: [&str; 16] = [
    "ancillary-temp-dir-left-after-abort",
    "immutable-file-beyond-beacon-kept",
    "ancillary-move-follows-symlink-out-of-target",
    "download-ok-despite-garbage-immutable",
    "immutable-archive-writes-outside-immutable-dir",
    "immutable-file-outside-requested-range",
    "unexpected-entry-in-immutable-dir-kept",
    "manifest-entry-splicing-accepted",
    "ancillary-file-kept-after-failed-verification",
    "ancillary-file-without-ancillary-option",
    "unlisted-ancillary-file-kept",
    "ancillary-temp-dir-left-behind",
    "unexpected-file-in-target",
    "user-file-removed",
    "file-written-outside-target-dir",
    "honest-download-failed",
];

pub fn run(args: &Args) -> i32 {
    let mut check = Check::new("C19", "exploration", args);
    check.shrink_iters(150);
    check
        .rule(
            "real download_unpack against harness-built mirrors; a case is non-trivial when an archive carries >= 1 \
             out-of-policy entry, or the ancillary manifest/archive is altered after signing, or a fault is injected \
             (missing location, corrupt/truncated archive, blocked final move); distinct = distinct (range, options, \
             entry kinds + positions, alteration, faults, mirrors, pre-existing files) shapes",
        )
        .assume("the snapshot message itself (locations, compression algorithm, beacon, network) is as an honest aggregator builds it; only the bytes behind the locations are adversarial")
        .assume("file:// locations share the whole unpack path with http locations (HttpFileDownloader::download_unpack); the HTTP streaming branch is not exercised")
        .assume("the harness' signer stands for the holder of the ancillary signing key: it signs exactly one honest manifest per case (sha256 over path||hash pairs, as the aggregator does)")
        .assume("content of requested immutable files is out of scope here (verified later against the certified Merkle root); the oracle is name-based for them")
        .assume("empty directories are not counted as files");
    for l in [
        "honest-ok",
        "option:ancillary",
        "option:no-ancillary",
        "range:full",
        "range:from",
        "range:upto",
        "range:inner",
        "pre-existing-files",
        "imm-extra:ledger",
        "imm-extra:volatile",
        "imm-extra:top-level",
        "imm-extra:nested-immutable",
        "imm-extra:marker",
        "imm-extra:out-of-range",
        "imm-extra:beyond-beacon",
        "imm-extra:abs-or-dotdot",
        "imm-extra:link",
        "imm-extra:odd-name-in-immutable-dir",
        "odd-name:0",
        "anc-extra",
        "anc-extra:odd-name",
        "anc-alter:path-respelled",
        "anc-alter:tail-byte",
        "anc-file:over-64KiB",
        "anc-file:over-2MiB",
        "anc-alter:content",
        "anc-alter:content-in-subdir",
        "anc-alter:entries",
        "anc-alter:signature",
        "anc-alter:missing-manifest",
        "anc-verified-ok",
        "anc-verify-failed",
        "anc-files-restored",
        "fault:missing-location",
        "fault:corrupt-archive",
        "fault:move-blocked",
        "two-mirrors",
        "abort:ancillary-inflight",
        "transport:http",
    ] {
        check.require_label(l);
    }
    let known: BTreeSet<String> = KEYS.iter().filter(|k| check.has_open_known(k)).map(|k| k.to_string()).collect();
    let t = check.tier;
    check.section("honest", || case_strategy(Flavor::Honest), t.pick(400, 10_000), |c| case_fn(c, &known));
    check.section("archives", || case_strategy(Flavor::Archives), t.pick(2_400, 60_000), |c| case_fn(c, &known));
    check.section("faults", || case_strategy(Flavor::Faults), t.pick(1_200, 30_000), |c| case_fn(c, &known));
    // dedicated minimal reproductions of the finding classes (known-finding witnesses)
    let none = BTreeSet::new();
    let fails = |c: Case, key: &str| evaluate(&c, &none).1.contains(key);
    check.witness(
        "immutable-archive-writes-outside-immutable-dir",
        "an immutable archive that also carries `ledger/4242` leaves that file in the restored database",
        || fails(Case { imm_extras: vec![ImmExtra { arch: 0, kind: Extra::LedgerFlat, first: false }], ..witness_base() }, "immutable-archive-writes-outside-immutable-dir"),
    );
    check.witness(
        "immutable-file-outside-requested-range",
        "range 2..=2 requested: the archive of immutable 2 also carries `immutable/00000.chunk`, which is kept",
        || {
            fails(
                Case { range: RangeSpec::From(u16::MAX), imm_extras: vec![ImmExtra { arch: 0, kind: Extra::ImmNumber(0, 0), first: false }], ..witness_base() },
                "immutable-file-outside-requested-range",
            )
        },
    );
    check.witness(
        "manifest-entry-splicing-accepted",
        "manifest entries (ledger/a,h1),(ledger/b,h2) replaced by the single entry (ledger/a+h1+ledger/b, h2) still verify under the original signature",
        || {
            fails(
                Case { include_ancillary: true, anc: AncSpec { layout: 1, alter: Alter::MergeAdjacent(0), extras: vec![], manifest_first: false, big: 0 }, ..witness_base() },
                "manifest-entry-splicing-accepted",
            )
        },
    );
    check.witness(
        "ancillary-move-follows-symlink-out-of-target",
        "an immutable archive delivers a symlink `ledger` -> directory outside the target; the verified ledger files are then moved there",
        || {
            fails(
                Case { include_ancillary: true, imm_extras: vec![ImmExtra { arch: 0, kind: Extra::SymlinkLedgerDivert, first: false }], ..witness_base() },
                "ancillary-move-follows-symlink-out-of-target",
            )
        },
    );
    check.witness(
        "ancillary-temp-dir-left-after-abort",
        "an immutable download fails while the ancillary download is in flight: `ancillary-<id>/` with unverified files stays in the target",
        || {
            let a = AbortCase { seed: 7, beacon: 2, fail_ix: 0, stall_after: 0, layout: 0, evil: true, manifest_first: false, user_file: false };
            matches!(abort_case_fn(&a, &none).outcome, vcore::Outcome::Violation { ref key, .. } if key == "ancillary-temp-dir-left-after-abort")
        },
    );
    check.enumerate("abort-inflight", abort_cases(check.seed, t.pick(64, 1_600)).into_iter(), false, |a| abort_case_fn(a, &known));
    check.finish()
}
