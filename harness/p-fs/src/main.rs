mod c10;
mod c12;
mod c19;

fn main() {
    let args = vcore::parse_args();
    let which = args.rest.first().cloned().unwrap_or_default();
    let code = match which.as_str() {
        "C10" => c10::run(&args),
        "C12" => c12::run(&args),
        "C19" => c19::run(&args),
        other => {
            eprintln!("p-fs: unknown property '{other}'");
            2
        }
    };
    std::process::exit(code);
}
