//! C10 — A restored Cardano database is accepted only if every file is the certified one.
//!
//! Per case: an honest database (1–8 immutable trios + optionally the in-progress trio, some files with equal
//! contents) is written to a scratch directory; the *certified side* is produced by the real code (digester → digest
//! list → Merkle root → a certificate message whose signed message contains that root) and cross-checked against the
//! harness' own SHA-256 / MMR restatement. The digest list is served through a `file://` location to the real
//! `HttpFileDownloader`; the client is a real `mithril_client::Client` (ClientBuilder). Then the restored directory and
//! / or the served list are tampered with and the caller's sequence of the CLI is executed:
//! `download_and_verify_digests` → `verify_cardano_database` → `MessageBuilder::compute_cardano_database_message` →
//! `certificate.match_message`.
//!
//! Oracle (independent of the code under test; M = harness-side SHA-256 of the honest files, per NAME):
//!  A. digests accepted  ⇒ the returned name→digest map is contained in the served list and reproduces the signed root
//!     under the harness' MMR; the untouched (or merely reordered) list must be accepted.
//!  B. database accepted ⇒ for every canonical name in the requested range: present (unless allow_missing) and
//!     SHA-256(content) == M[name]; no other immutable-named file with a number in the range.
//!  C. rejected with the lists ⇒ every offending name is in missing ∪ tampered ∪ non_verifiable.
//!  D. positive control: nothing offending, ≥ 1 file in the range, and the accepted list assigns the certified names
//!     ⇒ accepted.

use std::collections::{BTreeMap, BTreeSet};
use std::path::{Path, PathBuf};
use std::sync::{Arc, Mutex};

use mithril_cardano_node_internal_database::digesters::{CardanoImmutableDigester, ImmutableDigester};
use mithril_client::cardano_database_client::{CardanoDatabaseVerificationError, ImmutableFileRange};
use mithril_client::feedback::FeedbackSender;
use mithril_client::file_downloader::HttpFileDownloader;
use mithril_client::{
    AggregatorDiscoveryType, CardanoDatabaseSnapshot, Client, ClientBuilder, GenesisVerificationKey, MessageBuilder,
    MithrilCertificate,
};
use mithril_common::entities::{DigestLocation, ProtocolMessagePartKey};
use mithril_common::messages::{CardanoDatabaseDigestListItemMessage, DigestsMessagePart};
use mithril_common::test::double::{Dummy, fake_keys};
use proptest::prelude::*;
use serde::{Deserialize, Serialize};
use vcore::util::Scratch;
use vcore::{Args, Check, Report, pick_index};

use crate::c12::{
    Content, Model, Outcome, canonical_name, cut_root, discard_logger, mmr_root_hex, mmr_self_test, new_runtime,
    parse_immutable_name, sha256_hex, shuffle, small_content_strategy,
};

pub const KEY_WRONG_NAME: &str = "accepted-certified-content-under-wrong-name";
pub const KEY_WRONG_NAME_UNREPORTED: &str = "unreported-certified-content-under-wrong-name";
/// same acceptance, but the served (root-preserving) digest list itself assigns the digests to other names: the
/// Merkle root authenticates the sequence of digests, not the names
pub const KEY_WRONG_NAME_RENAMED_LIST: &str = "accepted-certified-content-under-wrong-name-with-renamed-digest-list";
/// completeness side of the positive control: an untampered range in which two files have the same content
pub const KEY_HONEST_EQUAL: &str = "honest-rejected-equal-file-contents";

// ---------------------------------------------------------------------------------------------------------------
// case description
// ---------------------------------------------------------------------------------------------------------------

#[derive(Clone, Debug, Serialize, Deserialize)]
struct Db10 {
    first: u64,
    trios: Vec<[Content; 3]>,
    /// the trio the node is still writing (number last+1, not certified)
    in_progress: Option<[Content; 3]>,
}

impl Db10 {
    fn last(&self) -> u64 {
        self.first + self.trios.len() as u64 - 1
    }
}

#[derive(Clone, Debug, Serialize, Deserialize)]
struct RangeSpec {
    /// 0 Full, 1 From, 2 UpTo, 3 Range
    kind: u8,
    a: u16,
    b: u16,
    invalid: bool,
}

#[derive(Clone, Debug, Serialize, Deserialize)]
enum DirTamper {
    Flip { file: u16, pos: u16, xor: u8 },
    Truncate { file: u16, newlen: u16 },
    Append { file: u16, extra: Vec<u8> },
    Delete { file: u16 },
    /// the file is gone and a DIRECTORY (holding a copy of the content) or a dangling symlink carries its name
    /// `symlink`: None = directory; Some(0) dangling link, Some(1) link to a file outside the database with the same
    /// content, Some(2) link to a file with other content
    ReplaceByNonFile { file: u16, symlink: Option<u8> },
    DeleteTrio { trio: u16 },
    /// a pristine copy of the whole immutable directory under `<db>/<place>/immutable` (place: ledger, volatile, aaa,
    /// zzz, `.hidden`), then one real file altered: a verifier that looks for "a directory named immutable" may hash
    /// the copy
    ShadowImmutableDir { place: u8, file: u16, pos: u16, xor: u8 },
    ReplaceFresh { file: u16, content: Content },
    /// exchange the contents of two file names
    Swap { a: u16, b: u16 },
    /// copy the content of one file over another name
    CopyOver { from: u16, to: u16 },
    /// rotate the contents of all files of one extension by one trio (a scrambled but "complete" database)
    RotateExt { ext: u8 },
    /// add a file that the honest database does not have. kind: 0 unpadded number, 1 six-digit padding, 2 beyond the
    /// beacon, 3 non-immutable name, 4 non-numeric stem with an immutable extension, 5 beside immutable/,
    /// 6 canonical name below the first certified trio. `copy_of`: take the content of that certified file.
    AddForeign { kind: u8, num: u16, ext: u8, copy_of: Option<u16>, content: Content },
}

#[derive(Clone, Debug, Serialize, Deserialize)]
enum ListTamper {
    Reverse,
    Shuffle(u64),
    AddBeyondBeacon { n: u8 },
    AddUnparsable,
    DuplicateIdentical { i: u16 },
    /// rename an entry so that its position in name order and its number are kept (`00001.chunk` → `00001.chunk0`)
    RenameKeepOrder { i: u16 },
    Drop { i: u16 },
    /// rename to the name of a number beyond the beacon (= dropped by the filter)
    RenameBeyond { i: u16 },
    SwapDigests { i: u16, j: u16 },
    SwapNames { i: u16, j: u16 },
    FlipDigest { i: u16, pos: u8 },
    AddInRange { num: u16, digest_of: Content },
    DuplicateConflicting { i: u16, digest_of: Content },
    Empty,
}

/// A hostile mirror that scrambles the directory AND the served list consistently: entry i of the (name-sorted) list
/// is removed, a new name is inserted right after entry i+k, and the digest VALUES keep their order (so the list still
/// reproduces the signed root, but assigns to names i+1..=i+k the digests of names i..i+k-1); in the directory file i
/// is deleted and files i+1..=i+k hold the contents of files i..i+k-1.
#[derive(Clone, Debug, Serialize, Deserialize)]
struct Shift {
    i: u16,
    k: u16,
}

#[derive(Clone, Debug, Serialize, Deserialize)]
struct Case10 {
    db: Db10,
    range: RangeSpec,
    allow_missing: bool,
    #[serde(default)]
    shift: Option<Shift>,
    dir: Vec<DirTamper>,
    list: Vec<ListTamper>,
}

// ---------------------------------------------------------------------------------------------------------------
// strategies
// ---------------------------------------------------------------------------------------------------------------

fn db10_strategy() -> impl Strategy<Value = Db10> {
    let trio = || prop::array::uniform3(small_content_strategy());
    (
        prop::collection::vec(trio(), 1..=8),
        prop_oneof![5 => Just(0u64), 2 => 1u64..=3],
        prop::option::weighted(0.7, trio()),
    )
        .prop_map(|(trios, first, in_progress)| Db10 { first, trios, in_progress })
}

fn range_strategy() -> impl Strategy<Value = RangeSpec> {
    (0u8..4, any::<u16>(), any::<u16>(), prop::bool::weighted(0.03))
        .prop_map(|(kind, a, b, invalid)| RangeSpec { kind, a, b, invalid })
}

fn dir_tamper_strategy() -> impl Strategy<Value = DirTamper> {
    let f = any::<u16>;
    let p = || prop_oneof![1 => Just(u16::MAX), 4 => any::<u16>()];
    prop_oneof![
        3 => (f(), p(), 1u8..=255).prop_map(|(file, pos, xor)| DirTamper::Flip { file, pos, xor }),
        2 => (f(), p()).prop_map(|(file, newlen)| DirTamper::Truncate { file, newlen }),
        2 => (f(), prop::collection::vec(any::<u8>(), 1..4)).prop_map(|(file, extra)| DirTamper::Append { file, extra }),
        2 => f().prop_map(|file| DirTamper::Delete { file }),
        3 => (0u8..7, f(), p(), 1u8..=255).prop_map(|(place, file, pos, xor)| DirTamper::ShadowImmutableDir { place, file, pos, xor }),
        3 => (f(), prop::option::of(0u8..3)).prop_map(|(file, symlink)| DirTamper::ReplaceByNonFile { file, symlink }),
        1 => f().prop_map(|trio| DirTamper::DeleteTrio { trio }),
        2 => (f(), small_content_strategy()).prop_map(|(file, content)| DirTamper::ReplaceFresh { file, content }),
        5 => (f(), f()).prop_map(|(a, b)| DirTamper::Swap { a, b }),
        4 => (f(), f()).prop_map(|(from, to)| DirTamper::CopyOver { from, to }),
        1 => (0u8..3).prop_map(|ext| DirTamper::RotateExt { ext }),
        4 => (0u8..7, f(), 0u8..3, prop::option::of(f()), small_content_strategy())
            .prop_map(|(kind, num, ext, copy_of, content)| DirTamper::AddForeign { kind, num, ext, copy_of, content }),
    ]
}

fn list_tamper_strategy() -> impl Strategy<Value = ListTamper> {
    let f = any::<u16>;
    prop_oneof![
        2 => Just(ListTamper::Reverse),
        2 => any::<u64>().prop_map(ListTamper::Shuffle),
        2 => (1u8..4).prop_map(|n| ListTamper::AddBeyondBeacon { n }),
        1 => Just(ListTamper::AddUnparsable),
        1 => f().prop_map(|i| ListTamper::DuplicateIdentical { i }),
        3 => f().prop_map(|i| ListTamper::RenameKeepOrder { i }),
        1 => f().prop_map(|i| ListTamper::Drop { i }),
        1 => f().prop_map(|i| ListTamper::RenameBeyond { i }),
        2 => (f(), f()).prop_map(|(i, j)| ListTamper::SwapDigests { i, j }),
        2 => (f(), f()).prop_map(|(i, j)| ListTamper::SwapNames { i, j }),
        1 => (f(), 0u8..64).prop_map(|(i, pos)| ListTamper::FlipDigest { i, pos }),
        1 => (f(), small_content_strategy()).prop_map(|(num, digest_of)| ListTamper::AddInRange { num, digest_of }),
        1 => (f(), small_content_strategy()).prop_map(|(i, digest_of)| ListTamper::DuplicateConflicting { i, digest_of }),
        1 => Just(ListTamper::Empty),
    ]
}

fn case_strategy() -> impl Strategy<Value = Case10> {
    (
        db10_strategy(),
        range_strategy(),
        prop::bool::weighted(0.35),
        prop::option::weighted(0.08, (any::<u16>(), any::<u16>()).prop_map(|(i, k)| Shift { i, k })),
        prop_oneof![1 => Just(vec![]).boxed(), 8 => prop::collection::vec(dir_tamper_strategy(), 1..=3).boxed()],
        prop_oneof![6 => Just(vec![]).boxed(), 4 => prop::collection::vec(list_tamper_strategy(), 1..=2).boxed()],
    )
        .prop_map(|(db, range, allow_missing, shift, dir, list)| {
            // the coordinated scenario is generated on its own (it needs the gap to be tolerated)
            let (allow_missing, dir, list) = if shift.is_some() { (true, vec![], vec![]) } else { (allow_missing, dir, list) };
            Case10 { db, range, allow_missing, shift, dir, list }
        })
}

// ---------------------------------------------------------------------------------------------------------------
// the real client (one per worker thread: its private temporary directory is derived from a timestamp)
// ---------------------------------------------------------------------------------------------------------------

static BUILD_LOCK: Mutex<()> = Mutex::new(());

fn build_client() -> Client {
    let _g = BUILD_LOCK.lock().unwrap_or_else(|e| e.into_inner());
    let downloader =
        HttpFileDownloader::new(FeedbackSender::new(&[]), discard_logger()).expect("HttpFileDownloader::new");
    let client = ClientBuilder::new(AggregatorDiscoveryType::Url("http://127.0.0.1:9/aggregator".to_string()))
        .set_genesis_verification_key(GenesisVerificationKey::JsonHex(fake_keys::genesis_verification_key()[0].to_string()))
        .with_http_file_downloader(Arc::new(downloader))
        .build()
        .expect("ClientBuilder::build");
    // the client's digest download directory is `$TMPDIR/mithril_client_<µs>_<µs>`: keep the builds of different
    // threads apart in time so that no two clients share it (no influence on any verdict)
    std::thread::sleep(std::time::Duration::from_millis(3));
    client
}

fn with_client<R>(f: impl FnOnce(&Client) -> R) -> R {
    thread_local! {
        static CLIENT: std::cell::OnceCell<Client> = const { std::cell::OnceCell::new() };
    }
    CLIENT.with(|c| f(c.get_or_init(build_client)))
}

// ---------------------------------------------------------------------------------------------------------------
// world: honest database, certified side, served list
// ---------------------------------------------------------------------------------------------------------------

struct World {
    db_dir: PathBuf,
    imm_dir: PathBuf,
    served: PathBuf,
    /// regular files directly inside immutable/
    model: Model,
    /// harness-side certified map: canonical name -> SHA-256 hex of the honest content (numbers first..=last)
    m: BTreeMap<String, String>,
    beacon: u64,
    certificate: MithrilCertificate,
    snapshot: CardanoDatabaseSnapshot,
    signed_root: String,
    /// the digest list as the real digester produced it
    honest_list: Vec<(String, String)>,
}

fn write_list(path: &Path, list: &[(String, String)]) {
    let msg: Vec<CardanoDatabaseDigestListItemMessage> = list
        .iter()
        .map(|(n, d)| CardanoDatabaseDigestListItemMessage { immutable_file_name: n.clone(), digest: d.clone() })
        .collect();
    std::fs::write(path, serde_json::to_vec(&msg).unwrap()).expect("write digest list");
}

impl World {
    fn build(root: &Path, db: &Db10, rt: &tokio::runtime::Runtime) -> Result<World, (String, String)> {
        let db_dir = root.join("restored");
        let imm_dir = db_dir.join("immutable");
        std::fs::create_dir_all(&imm_dir).unwrap();
        std::fs::create_dir_all(db_dir.join("ledger")).unwrap();
        std::fs::write(db_dir.join("ledger").join("437"), b"ledger state").unwrap();
        let served_dir = root.join("served");
        std::fs::create_dir_all(&served_dir).unwrap();
        let served = served_dir.join("digests.json");

        let mut model = Model::new();
        let mut m = BTreeMap::new();
        let beacon = db.last();
        for (i, t) in db.trios.iter().enumerate() {
            for (e, c) in t.iter().enumerate() {
                let name = canonical_name(db.first + i as u64, e);
                let b = c.bytes();
                m.insert(name.clone(), sha256_hex(&b));
                model.insert(name, b);
            }
        }
        if let Some(t) = &db.in_progress {
            for (e, c) in t.iter().enumerate() {
                model.insert(canonical_name(beacon + 1, e), c.bytes());
            }
        }
        for (name, b) in &model {
            std::fs::write(imm_dir.join(name), b).unwrap();
        }

        // ---- certified side, by the real code (aggregator role)
        let digester = CardanoImmutableDigester::new(None, discard_logger());
        let signed_root = match cut_root(rt, &digester, &db_dir, beacon) {
            Outcome::Root(r) => r,
            other => return Err(("certified-side-error".into(), format!("compute_merkle_tree on the honest database: {other:?}"))),
        };
        let entries = rt
            .block_on(digester.compute_digests_for_range(&db_dir, &(0..=beacon)))
            .map_err(|e| ("certified-side-error".to_string(), format!("compute_digests_for_range: {e:?}")))?
            .entries;
        let honest_list: Vec<(String, String)> = entries.iter().map(|(f, d)| (f.filename.clone(), d.clone())).collect();
        // cross-check with the harness' restatement (names, SHA-256, MMR)
        let mut own_list: Vec<(String, String)> = m.iter().map(|(n, d)| (n.clone(), d.clone())).collect();
        own_list.sort_by_key(|(n, _)| (parse_immutable_name(n).map(|x| x.0), n.clone()));
        let own_root = mmr_root_hex(&own_list.iter().map(|x| x.1.as_str()).collect::<Vec<_>>()).unwrap();
        if honest_list != own_list || own_root != signed_root {
            return Err((
                "certified-side-differs-from-sha256-restatement".into(),
                format!("digester list/root {honest_list:?} / {signed_root} vs harness {own_list:?} / {own_root}"),
            ));
        }

        let mut certificate = MithrilCertificate::dummy();
        certificate
            .protocol_message
            .set_message_part(ProtocolMessagePartKey::CardanoDatabaseMerkleRoot, signed_root.clone());
        certificate.signed_message = certificate.protocol_message.compute_hash();

        let mut snapshot = CardanoDatabaseSnapshot::dummy();
        snapshot.beacon.immutable_file_number = beacon;
        snapshot.merkle_root = signed_root.clone();
        snapshot.certificate_hash = certificate.hash.clone();
        snapshot.digests = DigestsMessagePart {
            size_uncompressed: 1024,
            locations: vec![DigestLocation::CloudStorage {
                uri: format!("file://{}", served.display()),
                compression_algorithm: None,
            }],
        };
        Ok(World { db_dir, imm_dir, served, model, m, beacon, certificate, snapshot, signed_root, honest_list })
    }

    fn write(&mut self, name: &str, bytes: Vec<u8>) {
        std::fs::write(self.imm_dir.join(name), &bytes).expect("write");
        self.model.insert(name.to_string(), bytes);
    }
    fn remove(&mut self, name: &str) {
        if self.model.remove(name).is_some() {
            std::fs::remove_file(self.imm_dir.join(name)).expect("remove");
        }
    }
}

/// the requested range as the documentation of `ImmutableFileRange` defines it (first immutable file number = 0)
fn requested_range(spec: &RangeSpec, last: u64) -> (ImmutableFileRange, Option<(u64, u64)>, &'static str) {
    let n = last as usize + 1;
    if spec.invalid {
        return match spec.kind % 3 {
            0 => (ImmutableFileRange::From(last + 1 + (spec.a % 3) as u64), None, "invalid"),
            1 => (ImmutableFileRange::UpTo(last + 1 + (spec.a % 3) as u64), None, "invalid"),
            _ => {
                let b = pick_index(spec.b, n) as u64;
                (ImmutableFileRange::Range(b + 1, b), None, "invalid")
            }
        };
    }
    match spec.kind % 4 {
        0 => (ImmutableFileRange::Full, Some((0, last)), "full"),
        1 => {
            let a = pick_index(spec.a, n) as u64;
            (ImmutableFileRange::From(a), Some((a, last)), "from")
        }
        2 => {
            let b = pick_index(spec.b, n) as u64;
            (ImmutableFileRange::UpTo(b), Some((0, b)), "up-to")
        }
        _ => {
            let x = pick_index(spec.a, n) as u64;
            let y = pick_index(spec.b, n) as u64;
            let (a, b) = (x.min(y), x.max(y));
            (ImmutableFileRange::Range(a, b), Some((a, b)), if a == b { "single" } else { "inner" })
        }
    }
}

/// number of a file name as far as "immutable file number N" can be read off a name: digits '.' immutable extension
fn loose_number(name: &str) -> Option<u64> {
    parse_immutable_name(name).map(|x| x.0)
}

fn has_unparsable_immutable(model: &Model) -> bool {
    model.keys().any(|n| {
        let ext = Path::new(n).extension().and_then(|e| e.to_str());
        ext.is_some_and(|e| crate::c12::EXTS.contains(&e)) && parse_immutable_name(n).is_none()
    })
}

#[derive(Default, Debug)]
struct Offending {
    missing: Vec<String>,
    /// canonical certified name, wrong content
    tampered: Vec<String>,
    /// immutable-named file with a number in the range that the certified list does not know
    foreign: Vec<String>,
}

impl Offending {
    fn is_empty(&self) -> bool {
        self.missing.is_empty() && self.tampered.is_empty() && self.foreign.is_empty()
    }
}

fn offending(w: &World, range: (u64, u64), allow_missing: bool) -> Offending {
    let mut o = Offending::default();
    for n in range.0..=range.1 {
        for e in 0..3 {
            let name = canonical_name(n, e);
            match (w.model.get(&name), w.m.get(&name)) {
                (None, _) => {
                    if !allow_missing {
                        o.missing.push(name);
                    }
                }
                (Some(b), Some(d)) => {
                    if sha256_hex(b) != *d {
                        o.tampered.push(name);
                    }
                }
                (Some(_), None) => o.foreign.push(name),
            }
        }
    }
    for name in w.model.keys() {
        if let Some(n) = loose_number(name)
            && n >= range.0
            && n <= range.1
            && *name != canonical_name(n, crate::c12::EXTS.iter().position(|x| name.ends_with(x)).unwrap_or(0))
        {
            o.foreign.push(name.clone());
        }
    }
    o
}

// ---------------------------------------------------------------------------------------------------------------
// tampering
// ---------------------------------------------------------------------------------------------------------------

fn apply_dir_tamper(w: &mut World, db: &Db10, t: &DirTamper, labels: &mut BTreeSet<String>) {
    // canonical file names currently present (certified range and the in-progress trio)
    let present: Vec<String> = w
        .model
        .keys()
        .filter(|k| loose_number(k).is_some_and(|n| **k == canonical_name(n, crate::c12::EXTS.iter().position(|x| k.ends_with(x)).unwrap())))
        .cloned()
        .collect();
    if present.is_empty() {
        return;
    }
    let pick = |raw: u16| present[pick_index(raw, present.len())].clone();
    let certified: Vec<String> = w.m.keys().cloned().collect();
    match t {
        DirTamper::Flip { file, pos, xor } => {
            let name = pick(*file);
            let mut b = w.model[&name].clone();
            if b.is_empty() {
                b.push(*xor);
            } else {
                let p = if *pos == u16::MAX { b.len() - 1 } else { pick_index(*pos, b.len()) };
                b[p] ^= (*xor).max(1);
            }
            w.write(&name, b);
            labels.insert("dir:flip".into());
        }
        DirTamper::Truncate { file, newlen } => {
            let name = pick(*file);
            let mut b = w.model[&name].clone();
            if b.is_empty() {
                b.push(7);
            } else {
                let l = if *newlen == u16::MAX { b.len() - 1 } else { pick_index(*newlen, b.len()) };
                b.truncate(l);
            }
            w.write(&name, b);
            labels.insert("dir:truncate".into());
        }
        DirTamper::Append { file, extra } => {
            let name = pick(*file);
            let mut b = w.model[&name].clone();
            b.extend_from_slice(extra);
            w.write(&name, b);
            labels.insert("dir:append".into());
        }
        DirTamper::Delete { file } => {
            let name = pick(*file);
            w.remove(&name);
            labels.insert("dir:delete".into());
        }
        DirTamper::ReplaceByNonFile { file, symlink } => {
            let name = pick(*file);
            if let Some(bytes) = w.model.get(&name).cloned() {
                w.remove(&name);
                let p = w.imm_dir.join(&name);
                if let Some(kind) = symlink {
                    let outside = w.imm_dir.parent().expect("db dir").parent().expect("case dir").join(format!("outside-{name}"));
                    let target = match kind {
                        0 => std::path::PathBuf::from("/nonexistent/verif-dangling"),
                        1 => {
                            std::fs::write(&outside, &bytes).expect("write");
                            outside
                        }
                        _ => {
                            let mut other = bytes.clone();
                            other.push(0x5a);
                            std::fs::write(&outside, &other).expect("write");
                            outside
                        }
                    };
                    std::os::unix::fs::symlink(&target, &p).expect("symlink");
                    labels.insert(format!("dir:replace-by-symlink:{}", ["dangling", "same-content", "other-content"][*kind as usize % 3]));
                } else {
                    std::fs::create_dir_all(&p).expect("mkdir");
                    std::fs::write(p.join("content"), &bytes).expect("write");
                    labels.insert("dir:replace-by-directory".into());
                }
            }
        }
        DirTamper::ShadowImmutableDir { place, file, pos, xor } => {
            // beside <db>/immutable, and INSIDE it (<db>/immutable/immutable, <db>/immutable/x/immutable)
            let place_name = ["ledger", "volatile", "aaa", "zzz", ".hidden", "immutable", "immutable/x"][*place as usize % 7];
            let shadow = w.imm_dir.parent().expect("db dir").join(place_name).join("immutable");
            std::fs::create_dir_all(&shadow).expect("mkdir");
            for (n, b) in w.model.clone() {
                std::fs::write(shadow.join(&n), &b).expect("write");
            }
            let name = pick(*file);
            if let Some(mut b) = w.model.get(&name).cloned() {
                if b.is_empty() {
                    b.push(*xor);
                } else {
                    let i = pick_index(*pos, b.len());
                    b[i] ^= *xor;
                }
                w.write(&name, b);
            }
            labels.insert(format!("dir:shadow-immutable-dir:{place_name}"));
        }
        DirTamper::DeleteTrio { trio } => {
            let n = db.first + pick_index(*trio, db.trios.len()) as u64;
            for e in 0..3 {
                w.remove(&canonical_name(n, e));
            }
            labels.insert("dir:delete-trio".into());
        }
        DirTamper::ReplaceFresh { file, content } => {
            let name = pick(*file);
            w.write(&name, content.bytes());
            labels.insert("dir:replace-fresh".into());
        }
        DirTamper::Swap { a, b } => {
            let (na, nb) = (pick(*a), pick(*b));
            let (ca, cb) = (w.model[&na].clone(), w.model[&nb].clone());
            if ca != cb {
                labels.insert("dir:swap-contents".into());
                let same_ext = na.rsplit('.').next() == nb.rsplit('.').next();
                labels.insert(if same_ext { "dir:swap-same-extension".into() } else { "dir:swap-different-extension".into() });
            } else {
                labels.insert("dir:swap-equal-contents(no-op)".into());
            }
            w.write(&na, cb);
            w.write(&nb, ca);
        }
        DirTamper::CopyOver { from, to } => {
            let (nf, nt) = (pick(*from), pick(*to));
            let c = w.model[&nf].clone();
            if c != w.model[&nt] {
                labels.insert("dir:copy-certified-over-other-name".into());
            }
            w.write(&nt, c);
        }
        DirTamper::RotateExt { ext } => {
            let e = (*ext % 3) as usize;
            let names: Vec<String> =
                (db.first..=db.last()).map(|n| canonical_name(n, e)).filter(|n| w.model.contains_key(n)).collect();
            if names.len() >= 2 {
                let contents: Vec<Vec<u8>> = names.iter().map(|n| w.model[n].clone()).collect();
                for (i, n) in names.iter().enumerate() {
                    w.write(n, contents[(i + 1) % names.len()].clone());
                }
                labels.insert("dir:rotate-one-extension".into());
            }
        }
        DirTamper::AddForeign { kind, num, ext, copy_of, content } => {
            let bytes = match copy_of {
                Some(raw) if !certified.is_empty() => {
                    labels.insert("dir:foreign-with-certified-content".into());
                    let src = &certified[pick_index(*raw, certified.len())];
                    // the honest content of that certified name
                    let idx = (parse_immutable_name(src).unwrap().0 - db.first) as usize;
                    let e = crate::c12::EXTS.iter().position(|x| src.ends_with(x)).unwrap();
                    db.trios[idx][e].bytes()
                }
                _ => content.bytes(),
            };
            let e = crate::c12::EXTS[(*ext % 3) as usize];
            let n_in = pick_index(*num, db.last() as usize + 1) as u64;
            match kind % 7 {
                0 => {
                    let name = format!("{n_in}.{e}");
                    if name != canonical_name(n_in, (*ext % 3) as usize) {
                        w.write(&name, bytes);
                        labels.insert("dir:foreign-unpadded-number".into());
                    }
                }
                1 => {
                    w.write(&format!("{n_in:06}.{e}"), bytes);
                    labels.insert("dir:foreign-six-digit-name".into());
                }
                2 => {
                    w.write(&canonical_name(db.last() + 2 + (*num % 3) as u64, (*ext % 3) as usize), bytes);
                    labels.insert("dir:foreign-beyond-beacon".into());
                }
                3 => {
                    w.write(&format!("{n_in:05}.{e}.bak"), bytes);
                    labels.insert("dir:foreign-non-immutable-name".into());
                }
                4 => {
                    w.write(&format!("abc.{e}"), bytes);
                    labels.insert("dir:foreign-non-numeric-stem".into());
                }
                5 => {
                    std::fs::write(w.db_dir.join(canonical_name(n_in, (*ext % 3) as usize)), bytes).unwrap();
                    labels.insert("dir:foreign-beside-immutable".into());
                }
                _ => {
                    if db.first > 0 {
                        let n = pick_index(*num, db.first as usize) as u64;
                        w.write(&canonical_name(n, (*ext % 3) as usize), bytes);
                        labels.insert("dir:foreign-below-first-certified".into());
                    }
                }
            }
        }
    }
}

fn apply_list_tamper(list: &mut Vec<(String, String)>, w: &World, t: &ListTamper, labels: &mut BTreeSet<String>) {
    let len = list.len();
    let idx = |raw: u16| pick_index(raw, len.max(1));
    match t {
        ListTamper::Reverse => {
            list.reverse();
            labels.insert("list:reorder".into());
        }
        ListTamper::Shuffle(seed) => {
            shuffle(list, *seed);
            labels.insert("list:reorder".into());
        }
        ListTamper::AddBeyondBeacon { n } => {
            for k in 0..*n as u64 {
                list.push((canonical_name(w.beacon + 1 + k, (k % 3) as usize), sha256_hex(&k.to_le_bytes())));
            }
            labels.insert("list:add-beyond-beacon".into());
        }
        ListTamper::AddUnparsable => {
            list.push(("abc.chunk".into(), sha256_hex(b"abc")));
            list.push(("README".into(), sha256_hex(b"readme")));
            labels.insert("list:add-unparsable".into());
        }
        ListTamper::DuplicateIdentical { i } if len > 0 => {
            let e = list[idx(*i)].clone();
            list.push(e);
            labels.insert("list:duplicate-identical".into());
        }
        ListTamper::RenameKeepOrder { i } if len > 0 => {
            let k = idx(*i);
            list[k].0 = format!("{}0", list[k].0);
            labels.insert("list:rename-keeping-order".into());
        }
        ListTamper::Drop { i } if len > 0 => {
            list.remove(idx(*i));
            labels.insert("list:drop".into());
        }
        ListTamper::RenameBeyond { i } if len > 0 => {
            let k = idx(*i);
            list[k].0 = canonical_name(w.beacon + 5, 0);
            labels.insert("list:rename-beyond-beacon".into());
        }
        ListTamper::SwapDigests { i, j } if len > 0 => {
            let (a, b) = (idx(*i), idx(*j));
            let t = list[a].1.clone();
            list[a].1 = list[b].1.clone();
            list[b].1 = t;
            labels.insert("list:swap-digests".into());
        }
        ListTamper::SwapNames { i, j } if len > 0 => {
            let (a, b) = (idx(*i), idx(*j));
            let t = list[a].0.clone();
            list[a].0 = list[b].0.clone();
            list[b].0 = t;
            labels.insert("list:swap-names".into());
        }
        ListTamper::FlipDigest { i, pos } if len > 0 => {
            let k = idx(*i);
            let mut d: Vec<u8> = list[k].1.clone().into_bytes();
            if !d.is_empty() {
                let p = *pos as usize % d.len();
                d[p] = if d[p] == b'0' { b'1' } else { b'0' };
                list[k].1 = String::from_utf8(d).unwrap();
            }
            labels.insert("list:flip-digest".into());
        }
        ListTamper::AddInRange { num, digest_of } => {
            let n = pick_index(*num, w.beacon as usize + 1) as u64;
            list.push((format!("{n:05}.tertiary"), sha256_hex(&digest_of.bytes())));
            labels.insert("list:add-in-range".into());
        }
        ListTamper::DuplicateConflicting { i, digest_of } if len > 0 => {
            let k = idx(*i);
            list.push((list[k].0.clone(), sha256_hex(&digest_of.bytes())));
            labels.insert("list:duplicate-conflicting".into());
        }
        ListTamper::Empty => {
            list.clear();
            labels.insert("list:empty".into());
        }
        _ => {}
    }
}

// ---------------------------------------------------------------------------------------------------------------
// the case function
// ---------------------------------------------------------------------------------------------------------------

enum Verdict {
    Accepted,
    /// rejected with the three lists
    Lists { missing: Vec<String>, tampered: Vec<String>, non_verifiable: Vec<String> },
    /// proof returned, but the recomputed message does not match the certificate
    MessageMismatch,
    OtherError(String),
}

fn run_verification(
    rt: &tokio::runtime::Runtime,
    w: &World,
    range: &ImmutableFileRange,
    allow_missing: bool,
) -> Result<(BTreeMap<String, String>, String, Verdict), String> {
    with_client(|client| {
        let cdb = client.cardano_database_v2();
        let verified = rt
            .block_on(cdb.download_and_verify_digests(&w.certificate, &w.snapshot))
            .map_err(|e| format!("{e:?}").lines().next().unwrap_or("").to_string())?;
        let tree_root = verified.merkle_tree.compute_root().map(|r| r.to_hex()).unwrap_or_default();
        let res = rt.block_on(cdb.verify_cardano_database(
            &w.certificate,
            &w.snapshot,
            range,
            allow_missing,
            &w.db_dir,
            &verified,
        ));
        let verdict = match res {
            Ok(proof) => {
                let msg = rt
                    .block_on(MessageBuilder::new().compute_cardano_database_message(&w.certificate, &proof))
                    .map_err(|e| format!("compute_cardano_database_message: {e:?}"));
                match msg {
                    Ok(m) if w.certificate.match_message(&m) => Verdict::Accepted,
                    Ok(_) => Verdict::MessageMismatch,
                    Err(e) => Verdict::OtherError(e),
                }
            }
            Err(CardanoDatabaseVerificationError::ImmutableFilesVerification(l)) => {
                Verdict::Lists { missing: l.missing, tampered: l.tampered, non_verifiable: l.non_verifiable }
            }
            Err(e) => Verdict::OtherError(format!("{e:?}").chars().take(300).collect()),
        };
        Ok((verified.digests.clone(), tree_root, verdict))
    })
}

fn case10(c: &Case10) -> Report {
    let mut rep = Report::new();
    let scratch = Scratch::new("c10");
    let rt = new_runtime();
    let mut w = match World::build(scratch.path(), &c.db, &rt) {
        Ok(w) => w,
        Err((key, what)) => {
            rep.violation(key, what);
            return rep;
        }
    };
    let last = w.beacon;
    let (range, range_nums, range_class) = requested_range(&c.range, last);
    rep.label(format!("range:{range_class}"));
    rep.label(if c.allow_missing { "allow-missing:yes" } else { "allow-missing:no" });
    {
        let vals: BTreeSet<&String> = w.m.values().collect();
        if vals.len() < w.m.len() {
            rep.label("db:equal-contents");
        }
    }

    // ---- tamper
    let mut labels: BTreeSet<String> = BTreeSet::new();
    let mut served = w.honest_list.clone();
    if let Some(sh) = &c.shift {
        let m = served.len();
        let i = pick_index(sh.i, m - 1);
        let k = 1 + pick_index(sh.k, m - 1 - i);
        let names: Vec<String> = served.iter().map(|x| x.0.clone()).collect();
        let values: Vec<String> = served.iter().map(|x| x.1.clone()).collect();
        let mut new_names = names.clone();
        new_names.remove(i);
        new_names.insert(i + k, format!("{}0", names[i + k]));
        served = new_names.into_iter().zip(values).collect();
        let orig = w.model.clone();
        w.remove(&names[i]);
        for j in i + 1..=i + k {
            w.write(&names[j], orig[&names[j - 1]].clone());
        }
        labels.insert("coordinated:shifted-list-and-directory".into());
    }
    for t in &c.dir {
        apply_dir_tamper(&mut w, &c.db, t, &mut labels);
    }
    for t in &c.list {
        apply_list_tamper(&mut served, &w, t, &mut labels);
    }
    write_list(&w.served, &served);
    for l in &labels {
        rep.label(l.clone());
    }
    let list_only_reordered = {
        let (mut a, mut b) = (served.clone(), w.honest_list.clone());
        a.sort();
        b.sort();
        a == b
    };

    // ---- run the caller's sequence
    let (digests, tree_root, verdict) = match run_verification(&rt, &w, &range, c.allow_missing) {
        Err(e) => {
            rep.label("digests:rejected");
            if list_only_reordered {
                rep.violation(
                    "honest-digest-list-rejected",
                    format!("the digest list produced by the digester (at most reordered) was rejected: {e}"),
                );
            }
            if c.shift.is_some() {
                // legitimate once the client insists on the canonical name set
                rep.label("coordinated:shifted-list-rejected");
            }
            if !c.list.is_empty() {
                rep.nontrivial(format!("list-rejected|{labels:?}"));
            }
            return rep;
        }
        Ok(x) => x,
    };
    rep.label("digests:accepted");

    // ---- oracle A
    let served_pairs: BTreeSet<(&String, &String)> = served.iter().map(|(n, d)| (n, d)).collect();
    if let Some((n, d)) = digests.iter().find(|(n, d)| !served_pairs.contains(&(*n, *d))) {
        rep.violation("verified-digests-not-from-served-list", format!("returned entry {n} -> {d} is not in the served list"));
        return rep;
    }
    let own_root = mmr_root_hex(&digests.values().map(|s| s.as_str()).collect::<Vec<_>>()).unwrap_or_default();
    if own_root != w.signed_root || tree_root != w.signed_root {
        rep.violation(
            "digest-list-accepted-with-wrong-root",
            format!(
                "served list {served:?} accepted; root of the returned digests (harness MMR) {own_root}, root of the returned tree {tree_root}, signed root {}",
                w.signed_root
            ),
        );
        return rep;
    }
    let names_differ = digests != w.m;
    if names_differ {
        // the Merkle root authenticates the digest sequence only
        rep.label("digests:accepted-with-names-differing-from-certified");
    }
    if (!c.list.is_empty() || c.shift.is_some()) && !list_only_reordered {
        rep.label("digests:accepted-modified-list-keeping-root");
    }

    // ---- oracles B, C, D
    let verdict_class = match &verdict {
        Verdict::Accepted => "accepted",
        Verdict::Lists { .. } => "rejected-with-lists",
        Verdict::MessageMismatch => "rejected-message-mismatch",
        Verdict::OtherError(_) => "rejected-other-error",
    };
    rep.label(format!("verdict:{verdict_class}"));
    let Some(rn) = range_nums else {
        if matches!(verdict, Verdict::Accepted) {
            rep.violation("accepted-invalid-range", format!("range {range:?} with last immutable {last} was accepted"));
        }
        return rep;
    };
    let off = offending(&w, rn, c.allow_missing);
    let unparsable = has_unparsable_immutable(&w.model);
    let certified_values: BTreeSet<&String> = w.m.values().collect();
    let is_member = |name: &String| w.model.get(name).is_some_and(|b| certified_values.contains(&sha256_hex(b)));
    let in_range_present = w.model.keys().filter(|k| loose_number(k).is_some_and(|n| n >= rn.0 && n <= rn.1)).count();

    let equal_in_range = {
        let d: Vec<String> = w
            .model
            .iter()
            .filter(|(k, _)| loose_number(k).is_some_and(|n| n >= rn.0 && n <= rn.1))
            .map(|(_, b)| sha256_hex(b))
            .collect();
        d.iter().collect::<BTreeSet<_>>().len() < d.len()
    };
    if equal_in_range {
        rep.label("range-holds-equal-contents");
    }
    let honest_key = if equal_in_range { KEY_HONEST_EQUAL } else { "honest-rejected" };
    let wrong = off.tampered.iter().chain(off.foreign.iter()).cloned().collect::<Vec<_>>();
    let permutation_type = !wrong.is_empty() && wrong.iter().all(is_member);
    if permutation_type {
        rep.label("offending:certified-content-under-wrong-name");
    }
    if wrong.iter().any(|n| !is_member(n)) {
        rep.label("offending:uncertified-content");
    }
    if !off.missing.is_empty() {
        rep.label("offending:missing");
    }
    if off.is_empty() {
        rep.label(if c.dir.is_empty() { "offending:none(untouched)" } else { "offending:none(tampering-out-of-range-or-no-op)" });
    }

    if matches!(verdict, Verdict::Accepted) && off.is_empty() && equal_in_range {
        // positive control for ranges in which two files have the same content (regression class of fix 8817e01d5)
        rep.label("positive-control:range-with-equal-contents-accepted");
        let empties = w
            .model
            .iter()
            .filter(|(k, b)| b.is_empty() && loose_number(k).is_some_and(|n| n >= rn.0 && n <= rn.1))
            .count();
        if empties >= 2 {
            rep.label("positive-control:range-with-several-empty-files-accepted");
        }
    }
    match &verdict {
        Verdict::Accepted => {
            if unparsable {
                rep.violation(
                    "accepted-with-unparsable-immutable-file",
                    "directory with an immutable file whose number cannot be read was accepted".to_string(),
                );
            } else if !off.missing.is_empty() {
                rep.violation(
                    "accepted-missing-file",
                    format!("range {range:?} allow_missing={} accepted although {:?} are missing", c.allow_missing, off.missing),
                );
            } else if wrong.iter().any(|n| !is_member(n)) {
                rep.violation(
                    "accepted-uncertified-content",
                    format!("range {range:?} accepted although {wrong:?} do not hold their certified content (tampering {:?})", c.dir),
                );
            } else if !wrong.is_empty() {
                rep.violation(
                    if names_differ { KEY_WRONG_NAME_RENAMED_LIST } else { KEY_WRONG_NAME },
                    format!(
                        "range {range:?} allow_missing={} accepted although {wrong:?} hold the certified content of OTHER file names (tampering {:?}, shift {:?}, served list names differ from the certified ones: {names_differ})",
                        c.allow_missing, c.dir, c.shift
                    ),
                );
            }
        }
        Verdict::Lists { missing, tampered, non_verifiable } => {
            let reported: BTreeSet<&String> = missing.iter().chain(tampered.iter()).chain(non_verifiable.iter()).collect();
            let all: Vec<&String> = off.missing.iter().chain(wrong.iter()).collect();
            let unreported: Vec<&String> = all.iter().filter(|n| !reported.contains(*n)).cloned().collect();
            if off.is_empty() && in_range_present > 0 && !unparsable && !names_differ {
                rep.violation(
                    honest_key,
                    format!(
                        "range {range:?} allow_missing={}: every file in the range is the certified one, yet rejected with missing={missing:?} tampered={tampered:?} non_verifiable={non_verifiable:?}",
                        c.allow_missing
                    ),
                );
            } else if !unreported.is_empty() {
                let key = if unreported.iter().all(|n| is_member(n)) { KEY_WRONG_NAME_UNREPORTED } else { "unreported-offending-file" };
                rep.violation(
                    key,
                    format!(
                        "range {range:?} allow_missing={} rejected, but {unreported:?} are not reported (missing={missing:?} tampered={tampered:?} non_verifiable={non_verifiable:?}; tampering {:?})",
                        c.allow_missing, c.dir
                    ),
                );
            }
            if !names_differ {
                // precision of the report (informative only)
                let accused_ok = tampered.iter().chain(non_verifiable.iter()).any(|n| !wrong.contains(n));
                if accused_ok {
                    rep.label("report:accuses-a-file-outside-the-harness-offending-set");
                }
            }
        }
        Verdict::MessageMismatch => {
            if off.is_empty() && in_range_present > 0 && !unparsable && !names_differ {
                rep.violation(honest_key, "proof returned but the recomputed message does not match the certificate".to_string());
            }
        }
        Verdict::OtherError(e) => {
            if off.is_empty() && in_range_present > 0 && !unparsable && !names_differ {
                let e: String = e.lines().next().unwrap_or("").to_string();
                rep.violation(honest_key, format!("range {range:?}: every file in the range is the certified one, yet error {e}"));
            }
        }
    }

    let list_nontrivial = (!c.list.is_empty() || c.shift.is_some()) && !list_only_reordered;
    if permutation_type || list_nontrivial {
        rep.nontrivial(format!("{labels:?}|{range_class}|am={}|{verdict_class}|perm={permutation_type}", c.allow_missing));
    }
    rep
}

/// minimal reproduction of the open finding: the contents of two certified files are exchanged
fn witness_swap() -> bool {
    let c = Case10 {
        db: Db10 {
            first: 0,
            trios: vec![
                [Content { seed: 1, len: 10 }, Content { seed: 2, len: 10 }, Content { seed: 3, len: 10 }],
                [Content { seed: 4, len: 10 }, Content { seed: 5, len: 10 }, Content { seed: 6, len: 10 }],
            ],
            in_progress: None,
        },
        range: RangeSpec { kind: 0, a: 0, b: 0, invalid: false },
        allow_missing: false,
        shift: None,
        // 00000.chunk <-> 00001.chunk
        dir: vec![DirTamper::Swap { a: 0, b: 33_000 }],
        list: vec![],
    };
    let r = case10(&c);
    matches!(&r.outcome, vcore::Outcome::Violation { key, .. } if key == KEY_WRONG_NAME)
}

pub fn run(args: &Args) -> i32 {
    let mut check = Check::new("C10", "exploration", args);
    check
        .rule(
            "honest database + certified side by the real code; 0-3 tamperings of the restored directory and 0-2 of the served \
             digest list; non-trivial = a permutation-type tampering in the requested range (every offending file holds content \
             certified for another name) or a modified digest list (not a mere reordering); distinct by (tamper classes, range \
             kind, allow_missing, verdict)",
        )
        .assume("the certificate is authentic (its signed message is what the harness put there); certificate-chain verification is outside this property")
        .assume("immutable numbers stay below 100000 (beyond that the client's name order and the digester's number order of the digest list diverge and honest lists are rejected — a completeness matter, not covered here)")
        .assume("SHA-256 collision resistance; M = SHA-256 of the honest contents per file name is the certified assignment")
        .require_label("dir:swap-contents")
        .require_label("dir:swap-same-extension")
        .require_label("dir:swap-different-extension")
        .require_label("dir:copy-certified-over-other-name")
        .require_label("dir:rotate-one-extension")
        .require_label("dir:flip")
        .require_label("dir:truncate")
        .require_label("dir:append")
        .require_label("dir:delete")
        .require_label("dir:foreign-unpadded-number")
        .require_label("dir:foreign-beyond-beacon")
        .require_label("dir:foreign-with-certified-content")
        .require_label("list:reorder")
        .require_label("list:rename-keeping-order")
        .require_label("list:drop")
        .require_label("list:swap-digests")
        .require_label("list:swap-names")
        .require_label("list:add-in-range")
        .require_label("list:duplicate-conflicting")
        .require_label("coordinated:shifted-list-and-directory")
        .require_label("digests:accepted")
        .require_label("digests:rejected")
        .require_label("digests:accepted-modified-list-keeping-root")
        .require_label("range:full")
        .require_label("range:from")
        .require_label("range:up-to")
        .require_label("range:inner")
        .require_label("range:single")
        .require_label("allow-missing:yes")
        .require_label("allow-missing:no")
        .require_label("offending:certified-content-under-wrong-name")
        .require_label("offending:uncertified-content")
        .require_label("offending:missing")
        .require_label("offending:none(untouched)")
        .require_label("offending:none(tampering-out-of-range-or-no-op)")
        .require_label("positive-control:range-with-equal-contents-accepted")
        .require_label("positive-control:range-with-several-empty-files-accepted")
        .require_label("verdict:accepted")
        .require_label("verdict:rejected-with-lists");
    if let Err(e) = mmr_self_test() {
        check.inconclusive(e);
        return check.finish();
    }
    let t = check.tier;
    check.section("tamper", case_strategy, t.pick(4000, 100_000), case10);
    check.witness(
        KEY_WRONG_NAME,
        "verify_cardano_database accepts a directory in which the contents of 00000.chunk and 00001.chunk are exchanged",
        witness_swap,
    );
    check.finish()
}
