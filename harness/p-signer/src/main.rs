mod c20;
mod fakeagg;
mod world;

fn main() {
    let args = vcore::parse_args();
    let which = args.rest.first().cloned().unwrap_or_default();
    let code = match which.as_str() {
        "C20" => c20::run(&args),
        other => {
            eprintln!("p-signer: unknown property '{other}'");
            2
        }
    };
    std::process::exit(code);
}
