//! C20 — "A signer signs each beacon once with its epoch key, acceptably to aggregators".
//!
//! Stateful exploration of the real signer (see world.rs) against a scripted, recording fake aggregator
//! (see fakeagg.rs). The oracle (see `judge`) recomputes — with protocol offsets hard-coded in the harness — the
//! signer set, stakes and protocol parameters an aggregator uses for every epoch from the registrations it
//! acknowledged, and checks the four clauses of the statement on the recorded traffic.
use std::collections::BTreeMap;
use std::path::PathBuf;
use std::sync::OnceLock;

use proptest::prelude::*;
use serde::{Deserialize, Serialize};

use mithril_common::crypto_helper::ProtocolAggregateVerificationKeyForConcatenation;
use mithril_common::entities::{
    ProtocolMessagePartKey, ProtocolParameters, SignedEntityType, Signer, SignerWithStake, SingleSignature,
    SingleSignatureAuthenticationStatus,
};
use mithril_common::messages::SignedEntityTypeMessage;
use mithril_common::protocol::{SignerBuilder, ToMessage};
use mithril_common::test::builder::{MithrilFixtureBuilder, StakeDistributionGenerationMethod};
use mithril_signer::SignerState;

use vcore::util::Scratch;
use vcore::{Args, Check, Report};

use crate::fakeagg::{self, AggState, REG_TO_SIGNING};
use crate::world::Env;

// ------------------------------------------------------------------------------------------------ case

#[derive(Debug, Clone, PartialEq, Serialize, Deserialize)]
pub enum Op {
    /// one cycle of the signer state machine
    Tick,
    /// the chain produces new immutable files / blocks (new beacons)
    ChainUp { immutables: u8, blocks: u8 },
    /// the aggregator answers the next n requests (any route) with 503 without processing them
    AggDown(u8),
    /// the aggregator has not noticed the epoch change: its next n /epoch-settings answers are those of epoch e-1
    StaleEpochSettings(u8),
    /// the next n /register-signer requests are answered 550 "registration round not yet opened"
    RoundClosed(u8),
    /// the other signers selected by the bit mask register with the aggregator now
    OthersRegister(u8),
    /// the next n /register-signatures requests fail with 500
    PublishFail(u8),
    /// the signer process is restarted: new in-memory state (state machine in Init), same stores on disk
    Restart,
    /// the chain moves to the next epoch while the aggregator's answer to the signer's next request of the given route
    /// (0 epoch settings, 1 protocol configuration, 2 register signer, 3 register signatures) is in flight: the
    /// aggregator has processed the request in the old epoch, the signer sees the answer in the new one
    EpochChangeInFlight(u8),
    /// a pool that has stake in the aggregator's view of the chain but not in the signer's node's registers with the
    /// aggregator now (it is announced among the next signers during the next epoch and among the current ones
    /// during the one after)
    GhostRegisters,
}

impl Op {
    fn kind(&self) -> String {
        match self {
            Op::Tick => "T".into(),
            Op::ChainUp { immutables, blocks } => {
                format!("C{}{}", if *immutables > 0 { "i" } else { "" }, if *blocks > 0 { "b" } else { "" })
            }
            Op::AggDown(n) => format!("D{n}"),
            Op::StaleEpochSettings(n) => format!("S{n}"),
            Op::RoundClosed(n) => format!("O{n}"),
            Op::OthersRegister(m) => format!("G{m}"),
            Op::PublishFail(n) => format!("P{n}"),
            Op::Restart => "R".into(),
            Op::EpochChangeInFlight(r) => format!("E{}", r % 4),
            Op::GhostRegisters => "H".into(),
        }
    }
    fn is_fault(&self) -> bool {
        matches!(self, Op::AggDown(_) | Op::StaleEpochSettings(_) | Op::RoundClosed(_) | Op::PublishFail(_) | Op::EpochChangeInFlight(_))
    }
}

#[derive(Debug, Clone, Serialize, Deserialize)]
pub struct Case {
    /// chain epoch at the start of the history
    pub start_epoch: u8,
    /// varies stakes and protocol parameters per epoch
    pub salt: u8,
    /// STORE_RETENTION_LIMIT of the signer (None = unlimited, 5 = value recommended by the operator manual)
    #[serde(default)]
    pub retention: Option<u8>,
    /// ops executed inside each epoch; the chain moves to the next epoch between two entries
    pub epochs: Vec<Vec<Op>>,
}

const OTHERS: usize = 3;
const MAX_OPS: usize = 40;

fn op_strategy() -> impl Strategy<Value = Op> {
    prop_oneof![
        60 => Just(Op::Tick),
        5 => (0u8..=2, prop_oneof![Just(0u8), Just(20u8), Just(45u8)])
            .prop_map(|(immutables, blocks)| Op::ChainUp { immutables, blocks }),
        3 => (1u8..=6).prop_map(Op::AggDown),
        2 => (1u8..=3).prop_map(Op::StaleEpochSettings),
        2 => (1u8..=3).prop_map(Op::RoundClosed),
        4 => (1u8..(1 << OTHERS)).prop_map(Op::OthersRegister),
        3 => (1u8..=4).prop_map(Op::PublishFail),
        4 => Just(Op::Restart),
        3 => (0u8..4).prop_map(Op::EpochChangeInFlight),
        1 => Just(Op::GhostRegisters),
    ]
}

fn case_strategy() -> impl Strategy<Value = Case> {
    // 3..6 epochs; the history (ops + epoch changes) is bounded by MAX_OPS by construction
    (3usize..=6)
        .prop_flat_map(|n_epochs| {
            let max_len = (MAX_OPS - (n_epochs - 1)) / n_epochs;
            // in a "calm" epoch the scripted aggregator faults are replaced by cycles (armed faults pile up at the
            // next epoch change otherwise and few histories get deep into the signing epochs)
            let epoch = (prop::bool::weighted(0.5), prop::collection::vec(op_strategy(), 3..=max_len)).prop_map(
                |(calm, ops)| {
                    if calm { ops.into_iter().map(|o| if o.is_fault() { Op::Tick } else { o }).collect() } else { ops }
                },
            );
            (
                1u8..=5,
                any::<u8>(),
                prop_oneof![Just(None), Just(Some(5u8))],
                prop::collection::vec(epoch, n_epochs),
            )
        })
        .prop_map(|(start_epoch, salt, retention, epochs)| Case { start_epoch, salt, retention, epochs })
}

// ------------------------------------------------------------------------------------------------ fixtures

struct Fixture {
    /// index 0 is the signer under test, the others only register (with their fixed fixture keys)
    signers: Vec<SignerWithStake>,
    sut_kes_dir: PathBuf,
}

static FIXTURE: OnceLock<Fixture> = OnceLock::new();

/// Deterministic crypto material from the repository's fixtures (KES keys + operational certificates are written
/// once, before any case runs, below $TMPDIR and only read afterwards).
fn fixture() -> &'static Fixture {
    FIXTURE.get_or_init(|| {
        let fx = MithrilFixtureBuilder::default()
            .with_signers(2 + OTHERS)
            .with_protocol_parameters(ProtocolParameters { k: 2, m: 6, phi_f: 1.0 })
            .with_stake_distribution(StakeDistributionGenerationMethod::Uniform(100))
            .build();
        let sut_kes_dir = fx.signers_fixture()[0]
            .kes_secret_key_path()
            .expect("certified fixture")
            .parent()
            .unwrap()
            .to_path_buf();
        Fixture { signers: fx.signers_with_stake(), sut_kes_dir }
    })
}

/// stake of signer `idx` as reported by the chain during `epoch` (changes every epoch so that a stake
/// distribution taken from the wrong epoch yields another aggregate verification key)
fn stake_of(salt: u8, epoch: u64, idx: usize) -> u64 {
    100 + ((salt as u64 + 7 * epoch + 13 * idx as u64) % 50) * 10
}

/// index of the ghost pool in the fixture (see `Op::GhostRegisters`): never part of the signer's node's stake distribution
const GHOST: usize = 1 + OTHERS;

fn stakes_for_epoch(salt: u8, epoch: u64) -> Vec<SignerWithStake> {
    fixture()
        .signers
        .iter()
        .take(GHOST)
        .enumerate()
        .map(|(i, s)| SignerWithStake { stake: stake_of(salt, epoch, i), ..s.clone() })
        .collect()
}

// ------------------------------------------------------------------------------------------------ execution

#[derive(Debug, Clone, Copy, PartialEq)]
enum StepKind {
    Tick,
    /// does not touch the signer nor the current epoch's beacons (other signers registering)
    Neutral,
    /// new beacons, scripted fault, restart, epoch change
    Disturbance,
}

#[derive(Debug, Clone)]
struct StepRec {
    step: u32,
    epoch: u64,
    kind: StepKind,
    /// signer state after the step (name, epoch held by the state)
    state: String,
    state_epoch: Option<u64>,
    /// a scripted fault is still armed after the step
    fault_armed: bool,
    immutable: u64,
}

#[derive(Default, Debug)]
struct RunInfo {
    trace: Vec<StepRec>,
    /// epochs the history went through (first..=last), including the epilogue
    first_epoch: u64,
    last_generated_epoch: u64,
    final_epoch: u64,
    restarts: u32,
    ticks: u32,
    keep_state_errors: u32,
    critical_errors: Vec<String>,
    panics: Vec<String>,
    harness_errors: Vec<String>,
    restart_in_state: Vec<String>,
    /// beacon that must be signed after the final restart: (epoch, immutable file number)
    final_beacon: Option<(u64, u64)>,
    final_restart_count: u32,
    epilogue_first_step: u32,
}

struct World {
    env: Env,
    signer: Option<crate::world::SignerProc>,
    info: RunInfo,
    salt: u8,
    step: u32,
    crashed_in_step: bool,
}

impl World {
    async fn set_epoch_stakes(&mut self, epoch: u64) {
        let sws = stakes_for_epoch(self.salt, epoch);
        let mut map: BTreeMap<String, u64> = sws.iter().map(|s| (s.party_id.clone(), s.stake)).collect();
        self.env.set_stakes(sws).await;
        let mut st = self.env.agg.state.lock().unwrap();
        if let Some((party, stake)) = st.ghost.clone() {
            map.insert(party, stake);
        }
        st.stakes.insert(epoch, map);
    }

    fn next_step(&mut self) {
        self.step += 1;
        self.env.agg.state.lock().unwrap().step = self.step;
    }

    async fn restart(&mut self) {
        if let Some(s) = &self.signer {
            self.info.restart_in_state.push(state_name(&s.state_machine.get_state().await));
        }
        self.signer = None; // drops the state machine, all services and the sqlite connections
        self.info.restarts += 1;
        self.env.agg.state.lock().unwrap().restarts = self.info.restarts;
        match self.env.start_signer().await {
            Ok(s) => self.signer = Some(s),
            Err(e) => self.info.harness_errors.push(format!("restart failed: {e:?}")),
        }
    }

    async fn tick(&mut self) {
        self.info.ticks += 1;
        let Some(signer) = &self.signer else { return };
        // the cycle runs in its own task so that a panic of the signer is observed like a process crash
        let sm = signer.state_machine.clone();
        let outcome = tokio::spawn(async move { sm.cycle().await }).await;
        match outcome {
            Ok(Ok(())) => {}
            Ok(Err(e)) if e.is_critical() => {
                // production: the process exits and is restarted by its supervisor
                self.info.critical_errors.push(format!("step {}: {e:?}", self.step));
                self.crashed_in_step = true;
                self.restart().await;
            }
            Ok(Err(_)) => self.info.keep_state_errors += 1,
            Err(join_error) => {
                let msg = match join_error.try_into_panic() {
                    Ok(p) => p
                        .downcast_ref::<String>()
                        .cloned()
                        .or_else(|| p.downcast_ref::<&str>().map(|s| s.to_string()))
                        .unwrap_or_else(|| "<non-string panic>".into()),
                    Err(e) => format!("cycle task failed: {e}"),
                };
                self.info.panics.push(format!("step {}: {msg}", self.step));
                self.crashed_in_step = true;
                self.restart().await;
            }
        }
    }

    async fn epoch_up(&mut self) -> u64 {
        let e = self.env.epoch_up().await;
        self.set_epoch_stakes(e).await;
        self.record(StepKind::Disturbance).await;
        e
    }

    async fn record(&mut self, kind: StepKind) {
        let (state, state_epoch) = match &self.signer {
            Some(s) => {
                let st = s.state_machine.get_state().await;
                (state_name(&st), state_epoch(&st))
            }
            None => ("-".to_string(), None),
        };
        let (epoch, fault_armed) = {
            let a = self.env.agg.state.lock().unwrap();
            (a.epoch, a.down_left + a.stale_left + a.round_closed_left + a.publish_fail_left > 0 || a.bump_after.is_some())
        };
        self.info.trace.push(StepRec {
            step: self.step,
            epoch,
            kind,
            state,
            state_epoch,
            fault_armed,
            immutable: self.env.immutable_number,
        });
    }

    async fn apply(&mut self, op: &Op) {
        self.next_step();
        let t0 = std::time::Instant::now();
        let bumps_before = self.env.agg.state.lock().unwrap().bumps.len();
        self.apply_inner(op).await;
        let epoch_changed_in_flight = self.env.agg.state.lock().unwrap().bumps.len() != bumps_before;
        let kind = match op {
            Op::Tick if std::mem::take(&mut self.crashed_in_step) => StepKind::Disturbance,
            Op::Tick if epoch_changed_in_flight => StepKind::Disturbance,
            Op::Tick => StepKind::Tick,
            Op::OthersRegister(_) | Op::GhostRegisters => StepKind::Neutral,
            _ => StepKind::Disturbance,
        };
        self.record(kind).await;
        if std::env::var_os("C20_TRACE").is_some() {
            let st = match &self.signer {
                Some(s) => state_name(&s.state_machine.get_state().await),
                None => "-".into(),
            };
            eprintln!("step {:3} {:?} -> {} ({:.1} ms)", self.step, op, st, t0.elapsed().as_secs_f64() * 1e3);
        }
    }

    async fn apply_inner(&mut self, op: &Op) {
        match op {
            Op::Tick => self.tick().await,
            Op::ChainUp { immutables, blocks } => self.env.chain_up(*immutables as u64, *blocks as u64).await,
            Op::AggDown(n) => self.env.agg.state.lock().unwrap().down_left = *n as u32,
            Op::StaleEpochSettings(n) => self.env.agg.state.lock().unwrap().stale_left = *n as u32,
            Op::RoundClosed(n) => self.env.agg.state.lock().unwrap().round_closed_left = *n as u32,
            Op::PublishFail(n) => self.env.agg.state.lock().unwrap().publish_fail_left = *n as u32,
            Op::OthersRegister(mask) => {
                let mut st = self.env.agg.state.lock().unwrap();
                for i in 0..OTHERS {
                    if mask & (1 << i) != 0 {
                        let signer: Signer = fixture().signers[1 + i].clone().into();
                        st.register_other(signer);
                    }
                }
            }
            Op::Restart => self.restart().await,
            Op::EpochChangeInFlight(route) => self.env.agg.state.lock().unwrap().bump_after = Some(route % 4),
            Op::GhostRegisters => {
                let ghost = &fixture().signers[GHOST];
                let mut st = self.env.agg.state.lock().unwrap();
                if st.ghost.is_none() {
                    st.ghost = Some((ghost.party_id.clone(), 170));
                    let epoch = st.epoch;
                    st.stakes.entry(epoch).or_default().insert(ghost.party_id.clone(), 170);
                }
                st.register_other(ghost.clone().into());
            }
        }
    }
}

fn state_name(s: &SignerState) -> String {
    match s {
        SignerState::Init => "Init".into(),
        SignerState::Unregistered { .. } => "Unregistered".into(),
        SignerState::ReadyToSign { .. } => "ReadyToSign".into(),
        SignerState::RegisteredNotAbleToSign { .. } => "RegisteredNotAbleToSign".into(),
    }
}

fn state_epoch(s: &SignerState) -> Option<u64> {
    match s {
        SignerState::Init => None,
        SignerState::Unregistered { epoch }
        | SignerState::ReadyToSign { epoch }
        | SignerState::RegisteredNotAbleToSign { epoch } => Some(epoch.0),
    }
}

fn sut_registered_during(st: &AggState, epoch: i64) -> bool {
    st.registered_during(epoch).iter().any(|r| r.from_sut)
}

/// Runs the history + the bounded-progress epilogue; returns the aggregator's records.
fn execute(case: &Case) -> Result<(AggState, RunInfo), String> {
    let rt = tokio::runtime::Builder::new_current_thread().enable_all().build().map_err(|e| e.to_string())?;
    let scratch = Scratch::new("c20");
    let fx = fixture();
    let result = rt.block_on(async {
        let start_epoch = case.start_epoch as u64;
        let env = Env::new(
            scratch.path(),
            &fx.signers[0],
            start_epoch,
            case.salt,
            &fx.sut_kes_dir,
            case.retention.map(|r| r as usize),
        )
            .await
            .map_err(|e| format!("env: {e:?}"))?;
        let mut w = World { env, signer: None, info: RunInfo::default(), salt: case.salt, step: 0, crashed_in_step: false };
        w.info.first_epoch = start_epoch;
        {
            let mut a = w.env.agg.state.lock().unwrap();
            a.chain = Some(w.env.chain.clone());
            a.stakes_fn = Some(stakes_for_epoch);
        }
        w.set_epoch_stakes(start_epoch).await;
        w.signer = Some(w.env.start_signer().await.map_err(|e| format!("start: {e:?}"))?);

        let mut epoch = start_epoch;
        for (i, ops) in case.epochs.iter().enumerate() {
            if i > 0 {
                w.next_step();
                epoch = w.epoch_up().await;
            }
            for op in ops {
                w.apply(op).await;
                // an epoch change in flight moves the chain inside an entry
                epoch = w.env.agg.state.lock().unwrap().epoch;
            }
        }
        w.info.last_generated_epoch = epoch;

        // ---- epilogue (clause d): heal, reach an epoch in which the model says the signer can sign, restart,
        // healthy ticks, a new beacon, healthy ticks ----
        w.info.epilogue_first_step = w.step + 1;
        w.env.agg.state.lock().unwrap().heal();
        for _ in 0..7 {
            let (has_cur, has_next) = {
                let st = w.env.agg.state.lock().unwrap();
                if st.ghost_announced_in(epoch) {
                    // the signer cannot even register while a signer without stake (in its node's view) is announced
                    (false, false)
                } else {
                    (
                        sut_registered_during(&st, epoch as i64 - REG_TO_SIGNING as i64),
                        sut_registered_during(&st, epoch as i64 + 1 - REG_TO_SIGNING as i64),
                    )
                }
            };
            if has_cur && has_next {
                break;
            }
            // healthy ticks so that the signer registers in this epoch, then next epoch
            for _ in 0..4 {
                w.apply(&Op::Tick).await;
            }
            w.next_step();
            epoch = w.epoch_up().await;
        }
        w.apply(&Op::Restart).await;
        w.info.final_restart_count = w.info.restarts;
        for _ in 0..8 {
            w.apply(&Op::Tick).await;
        }
        w.apply(&Op::ChainUp { immutables: 1, blocks: 0 }).await;
        w.info.final_beacon = Some((epoch, w.env.immutable_number));
        for _ in 0..4 {
            w.apply(&Op::Tick).await;
        }
        w.info.final_epoch = epoch;

        // clean shutdown: signer first (sqlite connections), then the aggregator task
        w.signer = None;
        let World { env, info, .. } = w;
        let state = {
            let mut guard = env.agg.state.lock().unwrap();
            std::mem::replace(&mut *guard, AggState::new(0, String::new(), 0))
        };
        drop(env);
        Ok::<_, String>((state, info))
    });
    drop(rt);
    drop(scratch);
    result
}

// ------------------------------------------------------------------------------------------------ oracle

/// epoch in which an aggregator opens the message of this signed entity type (protocol description)
fn signing_epoch_of(t: &SignedEntityType) -> u64 {
    match t {
        SignedEntityType::MithrilStakeDistribution(e) => e.0,
        // the stake distribution of the epoch that just ended is signed during the following epoch
        SignedEntityType::CardanoStakeDistribution(e) => e.0 + 1,
        SignedEntityType::CardanoDatabase(b) => b.epoch.0,
        SignedEntityType::CardanoTransactions(e, _) => e.0,
        SignedEntityType::CardanoBlocksTransactions(e, _, _) => e.0,
    }
}

fn encode_avk(signers: &[SignerWithStake], params: &ProtocolParameters) -> Result<String, String> {
    let sb = SignerBuilder::new(signers, params).map_err(|e| format!("{e:?}"))?;
    let avk: ProtocolAggregateVerificationKeyForConcatenation =
        sb.compute_aggregate_verification_key().to_concatenation_aggregate_verification_key().to_owned().into();
    avk.to_json_hex().map_err(|e| format!("{e:?}"))
}

struct Verdict {
    violations: Vec<(String, String)>,
    labels: Vec<String>,
}

fn judge(st: &AggState, info: &RunInfo) -> Verdict {
    let mut v = Verdict { violations: vec![], labels: vec![] };
    let sut = &st.sut_party;

    // --- registrations sent by the signer: label = receipt epoch + 1 (an aggregator's open round rejects others)
    for r in &st.reg_requests {
        if let Some(label) = r.label_epoch {
            // a request prepared before the chain moved within the same cycle carries the label of the epoch it was
            // prepared in: an aggregator refuses it (wrong round) and nothing is registered - not a wrong registration
            let overtaken = r.status != 201 && r.receipt_epoch > 0 && st.received_after_change_in_flight(r.step, r.seq, r.receipt_epoch) && label == r.receipt_epoch - 1 + fakeagg::REG_LABEL;
            if overtaken {
                v.labels.push("registration-overtaken-by-epoch-change-in-flight".into());
            } else if label != r.receipt_epoch + fakeagg::REG_LABEL {
                v.violations.push((
                    "registration-epoch-label".into(),
                    format!(
                        "step {}: signer registered with epoch label {label} while the chain is in epoch {} \
                         (an aggregator's open round records for {})",
                        r.step,
                        r.receipt_epoch,
                        r.receipt_epoch + 1
                    ),
                ));
            }
        }
        if r.status == 400 {
            v.violations.push((
                "registration-invalid".into(),
                format!("step {}: the signer's registration fails the aggregator's key registration: {}", r.step, r.note),
            ));
        }
    }
    // at most one acknowledged registration of the signer per round is expected; several are legal (last wins)
    // but worth a label
    for e in info.first_epoch..=info.final_epoch {
        let n = st.registrations.iter().filter(|r| r.from_sut && r.receipt_epoch == e).count();
        if n > 1 {
            v.labels.push("sut-registered-twice-in-a-round".into());
        }
    }

    if st.ghost.is_some() {
        v.labels.push("ghost-signer-registered".into());
        if st.sig_requests.iter().any(|r| st.ghost_announced_in(r.receipt_epoch)) {
            v.labels.push("signature-request-while-ghost-announced".into());
        }
    }
    for (_, _, route, _) in &st.bumps {
        v.labels.push(format!("epoch-change-in-flight:after-{}", ["epoch-settings", "protocol-configuration", "register-signer", "register-signatures"][(*route % 4) as usize]));
    }

    // --- signatures
    // per signing epoch: what an aggregator derives (signer set with stakes, parameters, expected seed parts)
    struct EpochModel {
        signers: Vec<SignerWithStake>,
        params: ProtocolParameters,
        builder: Result<SignerBuilder, String>,
        next_params: ProtocolParameters,
        next_signers_len: usize,
        next_avk: Result<String, String>,
    }
    let mut models: BTreeMap<u64, EpochModel> = BTreeMap::new();
    let mut acked: BTreeMap<String, Vec<u32>> = BTreeMap::new();
    for r in &st.sig_requests {
        let mut e = r.receipt_epoch;
        let Some(msg) = &r.message else {
            v.violations.push(("signature-undecodable".into(), format!("step {}: undecodable /register-signatures body", r.step)));
            continue;
        };
        let SignedEntityTypeMessage::Known(set) = &msg.signed_entity_type else {
            v.violations.push(("signature-unknown-entity".into(), format!("step {}: {:?}", r.step, msg.signed_entity_type)));
            continue;
        };
        let set_key = format!("{set:?}");
        if r.status == 201 {
            acked.entry(set_key.clone()).or_default().push(r.step);
        }
        let ctx = format!("step {} chain epoch {e} {set_key} (status {})", r.step, r.status);

        if &msg.party_id != sut {
            v.violations.push(("signature-party".into(), format!("{ctx}: party id {} is not the signer's", msg.party_id)));
        }
        if e > 0 && signing_epoch_of(set) == e - 1 && st.received_after_change_in_flight(r.step, r.seq, e) {
            // made while epoch e-1 was in force, delivered (retry of the same cycle) after the chain moved: judged
            // against the epoch in force when it was made
            e -= 1;
            v.labels.push("signature-overtaken-by-epoch-change-in-flight".into());
        }
        if signing_epoch_of(set) != e {
            v.violations.push((
                "beacon-epoch-mismatch".into(),
                format!("{ctx}: beacon of signing epoch {} published while the chain is in epoch {e}", signing_epoch_of(set)),
            ));
            continue;
        }

        // (c) registration eligible for this epoch: acknowledged during e-2
        let regs = st.registered_during(e as i64 - REG_TO_SIGNING as i64);
        let Some(sut_reg) = regs.iter().find(|x| x.from_sut) else {
            v.violations.push((
                "c-signed-without-eligible-registration".into(),
                format!("{ctx}: no registration of the signer was acknowledged during epoch {}", e as i64 - 2),
            ));
            continue;
        };

        // (b) acceptance by an aggregator that derived its signer set from the acknowledged registrations
        let model = models.entry(e).or_insert_with(|| {
            let signers = st.signers_for_signing_epoch(e);
            let params = st.params_for_signing_epoch(e).expect("e >= 2 here");
            let builder = SignerBuilder::new(&signers, &params).map_err(|err| format!("{err:#}"));
            let next_signers = st.signers_for_signing_epoch(e + 1);
            let next_params = st.params_for_signing_epoch(e + 1).unwrap();
            let next_avk = encode_avk(&next_signers, &next_params);
            EpochModel { signers, params, builder, next_params, next_signers_len: next_signers.len(), next_avk }
        });
        let (signers, params, next_params) = (&model.signers, &model.params, &model.next_params);
        let sb = match &model.builder {
            Ok(sb) => sb,
            Err(err) => {
                v.violations.push(("harness-model".into(), format!("{ctx}: model cannot build the signer set: {err}")));
                continue;
            }
        };
        let sig = match msg.signature.clone().try_into() {
            Ok(s) => SingleSignature {
                party_id: msg.party_id.clone(),
                signature: s,
                won_indexes: msg.won_indexes.clone(),
                authentication_status: SingleSignatureAuthenticationStatus::Unauthenticated,
            },
            Err(err) => {
                v.violations.push(("b-signature-undecodable".into(), format!("{ctx}: {err:#}")));
                continue;
            }
        };
        let Some(pm) = &r.protocol_message else {
            v.violations.push(("harness-model".into(), format!("{ctx}: no protocol message captured")));
            continue;
        };
        if pm.compute_hash() != msg.signed_message {
            v.violations.push((
                "b-signed-message-mismatch".into(),
                format!("{ctx}: signed_message on the wire is not the hash of the protocol message"),
            ));
        }
        // seed of the protocol message as the aggregator computes it for epoch e
        let expect_epoch = e.to_string();
        if pm.get_message_part(&ProtocolMessagePartKey::CurrentEpoch) != Some(&expect_epoch) {
            v.violations.push((
                "b-message-current-epoch".into(),
                format!("{ctx}: current_epoch part {:?}", pm.get_message_part(&ProtocolMessagePartKey::CurrentEpoch)),
            ));
        }
        if pm.get_message_part(&ProtocolMessagePartKey::NextProtocolParameters) != Some(&next_params.compute_hash()) {
            v.violations.push((
                "b-message-next-protocol-parameters".into(),
                format!("{ctx}: next_protocol_parameters part differs from the hash of {next_params:?}"),
            ));
        }
        match &model.next_avk {
            Ok(avk) => {
                if pm.get_message_part(&ProtocolMessagePartKey::NextAggregateVerificationKey) != Some(avk) {
                    v.violations.push((
                        "b-message-next-avk".into(),
                        format!(
                            "{ctx}: next_aggregate_verification_key part differs from the key derived from the {} \
                             registrations acknowledged during epoch {}",
                            model.next_signers_len,
                            e - 1
                        ),
                    ));
                }
            }
            Err(err) => v.violations.push((
                "b-message-next-avk".into(),
                format!("{ctx}: an aggregator cannot derive the next signer set ({err}) but the signer signed"),
            )),
        }
        // acceptance path of the aggregator
        let ms = sb.build_multi_signer();
        if let Err(err) = ms.verify_single_signature(pm, &sig) {
            v.violations.push((
                "b-signature-rejected".into(),
                format!("{ctx}: rejected under the signer set derived from the registrations of epoch {}: {err:#}", e - 2),
            ));
            continue;
        }
        // ... and explicitly with the key the signer registered for this epoch
        let stake = signers.iter().find(|s| &s.party_id == sut).map(|s| s.stake).unwrap_or(0);
        let avk = sb.compute_aggregate_verification_key();
        if let Err(err) = sig.to_protocol_signature().verify(
            &params.clone().into(),
            &sut_reg.signer.verification_key_for_concatenation.vk,
            &stake,
            &avk,
            pm.to_message().as_bytes(),
        ) {
            v.violations.push((
                "b-not-the-registered-key".into(),
                format!("{ctx}: does not verify with the key registered during epoch {}: {err:#}", e - 2),
            ));
        }
        v.labels.push(format!("verified:{}", discriminant(set)));
        if r.restarts_before > 0 {
            v.labels.push("verified-after-restart".into());
        }
    }

    // (a) at most one acknowledged publication per signed entity type and beacon
    for (k, steps) in &acked {
        if steps.len() > 1 {
            v.violations.push((
                "a-duplicate-acknowledged-publication".into(),
                format!("{k} acknowledged {} times (steps {:?})", steps.len(), steps),
            ));
        }
    }

    // (d') bounded progress inside the history: from any point at which no scripted fault is armed, in an epoch
    // for which the signer's registrations were acknowledged (during e-2: signing key, during e-1: next
    // initializer), after enough undisturbed cycles the current CardanoDatabase beacon (third in the signing
    // order MithrilStakeDistribution, CardanoStakeDistribution, CardanoDatabase) has been acknowledged.
    let cdb_acked_step = |e: u64, imm: u64| -> Option<u32> {
        let want = format!("{:?}", SignedEntityType::CardanoDatabase(mithril_common::entities::CardanoDbBeacon::new(e, imm)));
        st.sig_requests
            .iter()
            .filter(|r| r.status == 201)
            .filter(|r| {
                r.message.as_ref().is_some_and(
                    |m| matches!(&m.signed_entity_type, SignedEntityTypeMessage::Known(t) if format!("{t:?}") == want),
                )
            })
            .map(|r| r.step)
            .min()
    };
    let mut stalled_reported = false;
    for (i, start) in info.trace.iter().enumerate() {
        if stalled_reported || start.fault_armed || start.state == "-" {
            continue;
        }
        let e = start.epoch;
        if !(sut_registered_during(st, e as i64 - 2) && sut_registered_during(st, e as i64 - 1)) {
            continue;
        }
        if st.ghost_announced_in(e) {
            // the environment is inconsistent (see `Op::GhostRegisters`): no progress is owed, only silence
            continue;
        }
        // cycles needed to be in ReadyToSign{e} from the observed state, then 3 beacons
        let to_ready = match (start.state.as_str(), start.state_epoch) {
            ("Init", _) => 2,
            ("Unregistered", Some(se)) if se == e => 1,
            ("ReadyToSign", Some(se)) | ("RegisteredNotAbleToSign", Some(se)) if se == e => 0,
            _ => 2, // a state of a previous epoch: -> Unregistered{e} -> registered
        };
        let need = to_ready + 3;
        let mut ticks = 0;
        for rec in &info.trace[i + 1..] {
            match rec.kind {
                StepKind::Disturbance => break,
                StepKind::Neutral => continue,
                StepKind::Tick => ticks += 1,
            }
            if ticks >= need {
                let ok = cdb_acked_step(e, start.immutable).is_some_and(|s| s <= rec.step);
                if ok {
                    if rec.step < info.epilogue_first_step {
                        v.labels.push("progress-window-in-generated-history".into());
                        if start.state == "Init" {
                            v.labels.push("progress-window-from-restart-in-generated-history".into());
                        }
                    }
                } else {
                    stalled_reported = true;
                    v.violations.push((
                        "d-stalled".into(),
                        format!(
                            "epoch {e}: registrations of the signer acknowledged during epochs {} and {}, no fault \
                             armed after step {} (state {} {:?}), {ticks} undisturbed cycles until step {}: the beacon \
                             CardanoDatabase({e},{}) was not acknowledged (state now {})",
                            e - 2,
                            e - 1,
                            start.step,
                            start.state,
                            start.state_epoch,
                            rec.step,
                            start.immutable,
                            rec.state
                        ),
                    ));
                }
                break;
            }
        }
    }

    // (e) bounded progress of REGISTRATION: with a healthy aggregator (open round, no fault armed, the signer has stake)
    // the signer gets its registration for the epoch acknowledged within the cycles it needs to reach a registered
    // state (+2); a registered state without any acknowledged registration in the epoch is the same failure, seen at once
    let sut_ack_in = |e: u64, until_step: u32| st.registrations.iter().any(|r| r.from_sut && r.receipt_epoch == e && r.step <= until_step);
    let mut reg_reported = false;
    for (i, start) in info.trace.iter().enumerate() {
        if reg_reported || start.fault_armed || start.state == "-" {
            continue;
        }
        let e = start.epoch;
        if !st.stakes.get(&e).is_some_and(|m| m.contains_key(&st.sut_party)) {
            continue;
        }
        if st.ghost_announced_in(e) {
            continue;
        }
        let to_registered = match (start.state.as_str(), start.state_epoch) {
            ("Init", _) => 2,
            ("Unregistered", Some(se)) if se == e => 1,
            ("ReadyToSign", Some(se)) | ("RegisteredNotAbleToSign", Some(se)) if se == e => 0,
            _ => 2,
        };
        let need = to_registered + 2;
        let mut ticks = 0;
        for rec in &info.trace[i + 1..] {
            match rec.kind {
                StepKind::Disturbance => break,
                StepKind::Neutral => continue,
                StepKind::Tick => ticks += 1,
            }
            if rec.epoch != e {
                break;
            }
            if ticks >= need {
                if sut_ack_in(e, rec.step) {
                    v.labels.push("registration-progress-judged".into());
                } else {
                    reg_reported = true;
                    v.violations.push((
                        "e-registration-stalled".into(),
                        format!(
                            "epoch {e}: healthy aggregator (round open, no fault armed) after step {} (state {} {:?}), {ticks} undisturbed cycles until step {} (state now {}):                              no registration of the signer was acknowledged during this epoch (requests: {:?})",
                            start.step,
                            start.state,
                            start.state_epoch,
                            rec.step,
                            rec.state,
                            st.reg_requests.iter().filter(|r| r.receipt_epoch == e).map(|r| (r.step, r.status)).collect::<Vec<_>>()
                        ),
                    ));
                }
                break;
            }
        }
    }

    // (d) bounded progress after the final restart
    if let Some((e, imm)) = info.final_beacon {
        let want = format!("{:?}", SignedEntityType::CardanoDatabase(mithril_common::entities::CardanoDbBeacon::new(e, imm)));
        let ok = st.sig_requests.iter().any(|r| {
            r.status == 201
                && r.restarts_before >= info.final_restart_count
                && r.message.as_ref().is_some_and(|m| matches!(&m.signed_entity_type, SignedEntityTypeMessage::Known(t) if format!("{t:?}") == want))
        });
        if !ok {
            let last_states: Vec<String> =
                info.trace.iter().rev().take(6).rev().map(|r| format!("{}:{}", r.step, r.state)).collect();
            v.violations.push((
                "d-no-signature-after-restart".into(),
                format!(
                    "healthy aggregator, registrations of the signer acknowledged during epochs {} and {}, restart, \
                     12 cycles and the new beacon {want}: no acknowledged signature (last states {last_states:?}, \
                     critical errors {:?})",
                    e - 2,
                    e - 1,
                    info.critical_errors
                ),
            ));
        }
    }
    v
}

fn discriminant(t: &SignedEntityType) -> &'static str {
    match t {
        SignedEntityType::MithrilStakeDistribution(_) => "MithrilStakeDistribution",
        SignedEntityType::CardanoStakeDistribution(_) => "CardanoStakeDistribution",
        SignedEntityType::CardanoDatabase(_) => "CardanoDatabase",
        SignedEntityType::CardanoTransactions(_, _) => "CardanoTransactions",
        SignedEntityType::CardanoBlocksTransactions(_, _, _) => "CardanoBlocksTransactions",
    }
}

// ------------------------------------------------------------------------------------------------ case function

fn case_fn(case: &Case) -> Report {
    let mut rep = Report::new();
    let t_exec = std::time::Instant::now();
    let (st, info) = match execute(case) {
        Ok(x) => x,
        Err(e) => {
            rep.label("harness-error");
            rep.discard(format!("harness error: {e}"));
            return rep;
        }
    };
    if !info.harness_errors.is_empty() {
        rep.label("harness-error");
        rep.discard(format!("harness error: {:?}", info.harness_errors));
        return rep;
    }
    let exec_s = t_exec.elapsed().as_secs_f64();
    let t_judge = std::time::Instant::now();
    let mut verdict = judge(&st, &info);
    verdict.labels.sort();
    verdict.labels.dedup();
    if std::env::var_os("C20_TIMING").is_some() {
        eprintln!(
            "case: execute {:.2}s judge {:.2}s steps {} sigs {}",
            exec_s,
            t_judge.elapsed().as_secs_f64(),
            info.ticks,
            st.sig_requests.len()
        );
    }
    for l in &verdict.labels {
        rep.label(l.clone());
    }

    // ---- coverage labels
    let n_epochs = case.epochs.len();
    let flat: Vec<&Op> = case.epochs.iter().flatten().collect();
    let faults = flat.iter().filter(|o| o.is_fault()).count();
    let restarts = flat.iter().filter(|o| matches!(o, Op::Restart)).count();
    let gen_last_step = info.epilogue_first_step;
    let in_history = |step: u32| step < gen_last_step;
    if st.hits.down > 0 {
        rep.label("fault-hit:agg-down");
    }
    if st.hits.stale > 0 {
        rep.label("fault-hit:stale-epoch-settings");
    }
    if st.hits.round_closed > 0 {
        rep.label("fault-hit:round-closed");
    }
    if st.hits.publish_fail > 0 {
        rep.label("fault-hit:publish-fail");
    }
    if st.sig_requests.iter().any(|r| in_history(r.step) && r.status == 201) {
        rep.label("signature-in-generated-history");
    }
    if st.sig_requests.iter().any(|r| in_history(r.step) && r.status == 201 && r.restarts_before > 0) {
        rep.label("signature-after-restart-in-generated-history");
    }
    // a failed publication later followed by an acknowledged one for the same beacon
    let mut failed: BTreeMap<String, u32> = BTreeMap::new();
    for r in &st.sig_requests {
        if let Some(m) = &r.message {
            let k = format!("{:?}", m.signed_entity_type);
            if r.status != 201 {
                failed.entry(k).or_insert(r.step);
            } else if let Some(fs) = failed.get(&k) {
                rep.label(if *fs == r.step { "publish-retry-same-cycle-acked" } else { "publish-retry-later-cycle-acked" });
            }
        }
    }
    if info.restart_in_state.iter().take(restarts).any(|s| s == "ReadyToSign") {
        rep.label("restart-in-ReadyToSign");
    }
    if info.restart_in_state.iter().take(restarts).any(|s| s == "Unregistered") {
        rep.label("restart-in-Unregistered");
    }
    if info.restart_in_state.iter().take(restarts).any(|s| s == "RegisteredNotAbleToSign") {
        rep.label("restart-in-RegisteredNotAbleToSign");
    }
    // an epoch of the generated history in which the signer missed its registration
    for e in info.first_epoch..=info.last_generated_epoch {
        if !sut_registered_during(&st, e as i64) && e < info.last_generated_epoch {
            rep.label("epoch-without-registration");
            break;
        }
    }
    if st.registrations.iter().any(|r| !r.from_sut) {
        rep.label("others-registered");
    }
    if !info.critical_errors.is_empty() {
        rep.label("critical-error-restart");
    }
    if info.final_epoch > info.last_generated_epoch {
        rep.label(format!("epilogue-extra-epochs:{}", info.final_epoch - info.last_generated_epoch));
    } else {
        rep.label("epilogue-extra-epochs:0");
    }
    rep.label(format!("epochs:{n_epochs}"));
    rep.label(format!("retention:{:?}", case.retention));

    if n_epochs >= 3 && (faults > 0 || restarts > 0) {
        let shape: Vec<String> =
            case.epochs.iter().map(|ops| ops.iter().map(|o| o.kind()).collect::<Vec<_>>().join("")).collect();
        rep.nontrivial(shape.join("|"));
    }

    if !info.panics.is_empty() {
        rep.label("signer-panic");
    }
    let mut violations = verdict.violations;
    if let Some(p) = info.panics.first() {
        // a crash of the code under test is never swallowed (reported after the more specific clause violations)
        let short: String = p.split(" @ ").next().unwrap_or("").chars().filter(|c| !c.is_ascii_digit()).take(60).collect();
        violations.push((format!("signer-panic:{}", short.trim()), format!("the signer panicked during a cycle: {p}")));
    }
    for (key, what) in violations {
        if key == "harness-model" {
            rep.label("harness-model-problem");
        }
        rep.violation(key, format!("{what} ;; case={}", serde_json::to_string(case).unwrap_or_default()));
    }
    rep
}

// ------------------------------------------------------------------------------------------------ entry point

/// deterministic happy-path and canonical fault histories (validate the offset model on honest runs first)
fn canonical_cases() -> Vec<Case> {
    use Op::*;
    let t = |n: usize| vec![Tick; n];
    let mut v = vec![];
    for start in [1u8, 4] {
        for salt in [0u8, 1, 2, 7] {
            // happy path, 5 epochs, everybody registers every epoch
            let happy: Vec<Vec<Op>> = (0..5)
                .map(|_| {
                    let mut ops = vec![OthersRegister(7)];
                    ops.extend(t(5));
                    ops.push(ChainUp { immutables: 1, blocks: 45 });
                    ops.extend(t(3));
                    ops
                })
                .collect();
            let retention = if salt % 2 == 1 { Some(5) } else { None };
            v.push(Case { start_epoch: start, salt, retention, epochs: happy });
            // only a subset of the others registers, changing every epoch; restarts in every epoch
            let subset: Vec<Vec<Op>> = (0..5u8)
                .map(|i| {
                    let mut ops = vec![OthersRegister(1 + (i + salt) % 7)];
                    ops.extend(t(3));
                    ops.push(Restart);
                    ops.extend(t(6));
                    ops.push(ChainUp { immutables: 2, blocks: 20 });
                    ops.push(PublishFail(1 + i % 3));
                    ops.extend(t(4));
                    ops
                })
                .collect();
            v.push(Case { start_epoch: start, salt, retention, epochs: subset });
            // aggregator trouble right after each epoch change
            let trouble: Vec<Vec<Op>> = (0..5u8)
                .map(|i| {
                    let mut ops = vec![
                        match i % 3 {
                            0 => AggDown(2 + i),
                            1 => StaleEpochSettings(2),
                            _ => RoundClosed(2),
                        },
                        OthersRegister(3),
                    ];
                    ops.extend(t(7));
                    ops
                })
                .collect();
            v.push(Case { start_epoch: start, salt, retention, epochs: trouble });
        }
    }
    v
}

pub fn run(args: &Args) -> i32 {
    let mut check = Check::new("C20", "exploration", args);
    check
        .rule(
            "history = 3..6 epochs x 2..9 ops (Tick, ChainUp, AggDown(n), StaleEpochSettings(n), RoundClosed(n), \
             OthersRegister(subset), PublishFail(n), Restart; <= 40 ops) on the real signer + a healing epilogue \
             (restart, healthy cycles, new beacon); non-trivial = >= 3 epochs and at least one fault op or restart; \
             distinct by the sequence of op kinds per epoch",
        )
        .assume(
            "trusted: mithril-stm / mithril-common crypto (SignerBuilder, MultiSigner, key registration) used by the \
             oracle to verify; chain observer, immutable observer, block scanner, digester doubles of the repository; \
             protocol offsets hard-coded in the harness: a registration received during epoch e carries label e+1 and \
             is in the signer set of epoch e+2, protocol configuration key K is in force in epoch K+1",
        )
        .assume(
            "phi_f = 1.0 in every served protocol configuration (every lottery won) so that no verdict depends on the \
             signer's OS-random key material; crashes happen between state-machine cycles only (no mid-cycle kill); \
             aggregator faults are 'request not processed' (no lost acknowledgements)",
        )
        .assume(
            "clause (d) is checked in an epoch for which the signer's registrations were acknowledged during both \
             e-2 (signing key) and e-1 (the signer derives the next protocol parameters from its own next initializer)",
        )
        .require_label("signature-in-generated-history")
        .require_label("signature-after-restart-in-generated-history")
        .require_label("fault-hit:agg-down")
        .require_label("fault-hit:stale-epoch-settings")
        .require_label("fault-hit:round-closed")
        .require_label("fault-hit:publish-fail")
        .require_label("ghost-signer-registered")
        .require_label("epoch-change-in-flight:after-epoch-settings")
        .require_label("epoch-change-in-flight:after-protocol-configuration")
        .require_label("epoch-change-in-flight:after-register-signer")
        .require_label("epoch-change-in-flight:after-register-signatures")
        .require_label("publish-retry-same-cycle-acked")
        .require_label("publish-retry-later-cycle-acked")
        .require_label("progress-window-in-generated-history")
        .require_label("progress-window-from-restart-in-generated-history")
        .require_label("restart-in-ReadyToSign")
        .require_label("restart-in-Unregistered")
        .require_label("epoch-without-registration")
        .require_label("others-registered")
        .require_label("verified:MithrilStakeDistribution")
        .require_label("verified:CardanoStakeDistribution")
        .require_label("verified:CardanoDatabase")
        .require_label("verified:CardanoTransactions")
        .shrink_iters(60);
    // crypto fixtures (KES keys on disk) are created once, before any concurrent case runs
    let _ = fixture();
    let t = check.tier;
    check.enumerate("canonical", canonical_cases().into_iter(), false, case_fn);
    check.section("histories", case_strategy, t.pick(600, 20_000), case_fn);
    check.finish()
}
