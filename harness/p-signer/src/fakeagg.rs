#![allow(dead_code)]
//! Harness-owned fake aggregator (loopback HTTP, axum).
//!
//! * records every request together with the chain epoch at receipt and the harness step index,
//! * answers from a *script* (fault counters set by the harness between state-machine cycles),
//! * NEVER calls the epoch-offset helpers of mithril-common: the protocol offsets are hard-coded below from
//!   the protocol description ("registrations made during epoch e are recorded for e+1 and used for signing
//!   in e+2").
use std::collections::{BTreeMap, BTreeSet};
use std::sync::{Arc, Mutex};

use axum::{
    Json, Router,
    body::Bytes,
    extract::{Path, State},
    http::StatusCode,
    response::{IntoResponse, Response},
    routing::{get, post},
};
use mithril_common::entities::{
    BlockNumber, BlockNumberOffset, CardanoTransactionsSigningConfig, Epoch, ProtocolMessage, ProtocolParameters,
    SignedEntityTypeDiscriminants, Signer, SignerWithStake,
};
use mithril_common::messages::{
    EpochSettingsMessage, ProtocolConfigurationMessage, RegisterSignatureMessageHttp, SignerMessagePart,
};
use mithril_common::protocol::SignerBuilder;

/// ---- hard-coded protocol offsets (protocol description; independent of mithril-common's helpers) ----
/// a registration received while the chain is in epoch `e` must carry the label `e + REG_LABEL`
pub const REG_LABEL: u64 = 1;
/// ... and is part of the signer set used for signing in epoch `e + REG_TO_SIGNING`
pub const REG_TO_SIGNING: u64 = 2;
/// the protocol configuration stored under key `K` is in force for signing in epoch `K + CFG_KEY_TO_SIGNING`
pub const CFG_KEY_TO_SIGNING: u64 = 1;

/// protocol configuration served for a key (pure function of the case salt)
pub fn params_for_key(salt: u8, key: u64) -> ProtocolParameters {
    let v = key + salt as u64;
    // phi_f = 1.0: every lottery is won, so that no verdict depends on the (OS-random) key material
    ProtocolParameters { k: 2 + v % 3, m: 6 + 2 * (v % 2), phi_f: 1.0 }
}

pub fn enabled_types() -> BTreeSet<SignedEntityTypeDiscriminants> {
    BTreeSet::from([
        SignedEntityTypeDiscriminants::MithrilStakeDistribution,
        SignedEntityTypeDiscriminants::CardanoStakeDistribution,
        SignedEntityTypeDiscriminants::CardanoDatabase,
        SignedEntityTypeDiscriminants::CardanoTransactions,
    ])
}

pub fn ctx_config() -> CardanoTransactionsSigningConfig {
    CardanoTransactionsSigningConfig { security_parameter: BlockNumberOffset(0), step: BlockNumber(30) }
}

#[derive(Clone, Debug)]
pub struct Registration {
    pub seq: u64,
    pub step: u32,
    pub receipt_epoch: u64,
    pub party_id: String,
    pub signer: Signer,
    pub part: SignerMessagePart,
    pub from_sut: bool,
}

#[derive(Clone, Debug)]
pub struct RegRequest {
    pub seq: u64,
    pub step: u32,
    pub receipt_epoch: u64,
    pub label_epoch: Option<u64>,
    pub status: u16,
    pub note: String,
}

#[derive(Clone, Debug)]
pub struct SigRequest {
    pub seq: u64,
    pub step: u32,
    pub receipt_epoch: u64,
    pub status: u16,
    pub message: Option<RegisterSignatureMessageHttp>,
    /// protocol message captured by the recording publisher decorator right before the HTTP call
    pub protocol_message: Option<ProtocolMessage>,
    pub note: String,
    /// number of signer restarts before this request
    pub restarts_before: u32,
}

#[derive(Default, Clone, Debug)]
pub struct FaultHits {
    pub down: u32,
    pub stale: u32,
    pub round_closed: u32,
    pub publish_fail: u32,
}

pub struct AggState {
    pub salt: u8,
    pub sut_party: String,
    pub epoch: u64,
    pub step: u32,
    pub restarts: u32,
    pub seq: u64,
    // script
    pub down_left: u32,
    pub stale_left: u32,
    pub round_closed_left: u32,
    pub publish_fail_left: u32,
    /// the chain moves to the next epoch right after the aggregator has answered the next request of this route
    /// (0 epoch settings, 1 protocol configuration, 2 register signer, 3 register signatures), i.e. while the answer
    /// is on its way to the signer
    pub bump_after: Option<u8>,
    /// (step, new epoch, route, sequence number of the last request received before) of the epoch changes that
    /// happened that way
    pub bumps: Vec<(u32, u64, u8, u64)>,
    /// a pool that has stake in the AGGREGATOR's view of the chain only (party id, stake): the signer's own node does not
    /// know it. Added to the aggregator's stake map of every epoch once set.
    pub ghost: Option<(String, u64)>,
    pub chain: Option<Arc<mithril_cardano_node_chain::test::double::FakeChainObserver>>,
    pub stakes_fn: Option<fn(u8, u64) -> Vec<SignerWithStake>>,
    pub hits: FaultHits,
    // chain knowledge of the aggregator: stake distribution observed during each epoch
    pub stakes: BTreeMap<u64, BTreeMap<String, u64>>,
    // records
    pub registrations: Vec<Registration>,
    pub reg_requests: Vec<RegRequest>,
    pub sig_requests: Vec<SigRequest>,
    pub settings_served: Vec<(u32, u64, u64)>, // (step, chain epoch, epoch in the answer)
    pub pending_pm: Option<ProtocolMessage>,
}

impl AggState {
    pub fn new(salt: u8, sut_party: String, epoch: u64) -> Self {
        AggState {
            salt,
            sut_party,
            epoch,
            step: 0,
            restarts: 0,
            seq: 0,
            down_left: 0,
            stale_left: 0,
            round_closed_left: 0,
            publish_fail_left: 0,
            bump_after: None,
            bumps: vec![],
            ghost: None,
            chain: None,
            stakes_fn: None,
            hits: FaultHits::default(),
            stakes: BTreeMap::new(),
            registrations: vec![],
            reg_requests: vec![],
            sig_requests: vec![],
            settings_served: vec![],
            pending_pm: None,
        }
    }

    /// the request `seq` of cycle `step` was received after the chain had moved to `receipt_epoch` WITHIN that same
    /// cycle of the signer (scripted epoch change in flight): what the signer sent was prepared in the epoch before
    pub fn received_after_change_in_flight(&self, step: u32, seq: u64, receipt_epoch: u64) -> bool {
        self.bumps.iter().any(|(s, e, _, q)| *s == step && *e == receipt_epoch && *q < seq)
    }

    /// the ghost pool is among the signers an aggregator announces for `epoch` (current signers: registered during
    /// epoch-2, next signers: registered during epoch-1): the signer's node has no stake for one of the announced
    /// signers, what a signer must do then is not determined by the statement beyond "publish nothing unacceptable"
    pub fn ghost_announced_in(&self, epoch: u64) -> bool {
        let Some((party, _)) = &self.ghost else { return false };
        [epoch as i64 - 2, epoch as i64 - 1].iter().any(|e| self.registered_during(*e).iter().any(|r| &r.party_id == party))
    }

    pub fn heal(&mut self) {
        self.down_left = 0;
        self.stale_left = 0;
        self.round_closed_left = 0;
        self.publish_fail_left = 0;
        self.bump_after = None;
    }

    /// acknowledged registrations received while the chain was in `receipt_epoch` (last one per party wins,
    /// like the aggregator's insert-or-replace store)
    pub fn registered_during(&self, receipt_epoch: i64) -> Vec<Registration> {
        if receipt_epoch < 0 {
            return vec![];
        }
        let mut by_party: BTreeMap<String, Registration> = BTreeMap::new();
        for r in &self.registrations {
            if r.receipt_epoch == receipt_epoch as u64 {
                by_party.insert(r.party_id.clone(), r.clone());
            }
        }
        let mut v: Vec<Registration> = by_party.into_values().collect();
        v.sort_by_key(|r| r.seq);
        v
    }

    /// signer set (with stake) an aggregator uses for signing in `signing_epoch`
    pub fn signers_for_signing_epoch(&self, signing_epoch: u64) -> Vec<SignerWithStake> {
        let reg_epoch = signing_epoch as i64 - REG_TO_SIGNING as i64;
        let regs = self.registered_during(reg_epoch);
        let empty = BTreeMap::new();
        let stakes = if reg_epoch >= 0 { self.stakes.get(&(reg_epoch as u64)).unwrap_or(&empty) } else { &empty };
        regs.into_iter()
            .filter_map(|r| stakes.get(&r.party_id).map(|s| SignerWithStake::from_signer(r.signer.clone(), *s)))
            .collect()
    }

    pub fn params_for_signing_epoch(&self, signing_epoch: u64) -> Option<ProtocolParameters> {
        signing_epoch.checked_sub(CFG_KEY_TO_SIGNING).map(|k| params_for_key(self.salt, k))
    }

    fn next_seq(&mut self) -> u64 {
        self.seq += 1;
        self.seq
    }

    fn consume_down(&mut self) -> bool {
        if self.down_left > 0 {
            self.down_left -= 1;
            self.hits.down += 1;
            true
        } else {
            false
        }
    }

    /// harness-side registration of another (fixture) signer, as if it had posted /register-signer now
    pub fn register_other(&mut self, signer: Signer) {
        let seq = self.next_seq();
        let part: SignerMessagePart = signer.clone().into();
        self.registrations.push(Registration {
            seq,
            step: self.step,
            receipt_epoch: self.epoch,
            party_id: signer.party_id.clone(),
            signer,
            part,
            from_sut: false,
        });
    }
}

pub type Shared = Arc<Mutex<AggState>>;

pub struct FakeAggregator {
    pub state: Shared,
    pub url: String,
    task: tokio::task::JoinHandle<()>,
}

impl Drop for FakeAggregator {
    fn drop(&mut self) {
        self.task.abort();
    }
}

impl FakeAggregator {
    /// must be called inside a tokio runtime
    pub fn spawn(state: AggState) -> anyhow::Result<FakeAggregator> {
        let state = Arc::new(Mutex::new(state));
        let router = Router::new()
            .route("/epoch-settings", get(epoch_settings_then))
            .route("/protocol-configuration/{epoch}", get(protocol_configuration_then))
            .route("/register-signer", post(register_signer_then))
            .route("/register-signatures", post(register_signatures_then))
            .with_state(state.clone());
        let std_listener = std::net::TcpListener::bind("127.0.0.1:0")?;
        std_listener.set_nonblocking(true)?;
        let addr = std_listener.local_addr()?;
        let listener = tokio::net::TcpListener::from_std(std_listener)?;
        let task = tokio::spawn(async move {
            let _ = axum::serve(listener, router).await;
        });
        Ok(FakeAggregator { state, url: format!("http://{addr}/"), task })
    }
}

/// the scripted epoch change "while the answer is in flight" (see `AggState::bump_after`)
async fn epoch_change_after(st: &Shared, route: u8) {
    let job = {
        let mut s = st.lock().unwrap();
        if s.bump_after == Some(route) {
            s.bump_after = None;
            match (s.chain.clone(), s.stakes_fn) {
                (Some(chain), Some(f)) => Some((chain, f, s.salt)),
                _ => None,
            }
        } else {
            None
        }
    };
    if let Some((chain, stakes_fn, salt)) = job {
        let e = chain.next_epoch().await.map(|e| e.0).unwrap_or(0);
        let sws = stakes_fn(salt, e);
        let mut map: BTreeMap<String, u64> = sws.iter().map(|s| (s.party_id.clone(), s.stake)).collect();
        chain.set_signers(sws).await;
        let mut s = st.lock().unwrap();
        if let Some((party, stake)) = s.ghost.clone() {
            map.insert(party, stake);
        }
        s.epoch = e;
        s.stakes.insert(e, map);
        let (step, seq) = (s.step, s.seq);
        s.bumps.push((step, e, route, seq));
    }
}

async fn epoch_settings_then(State(st): State<Shared>) -> Response {
    let r = epoch_settings(State(st.clone())).await;
    epoch_change_after(&st, 0).await;
    r
}

async fn protocol_configuration_then(key: Path<u64>, State(st): State<Shared>) -> Response {
    let r = protocol_configuration(key, State(st.clone())).await;
    epoch_change_after(&st, 1).await;
    r
}

async fn register_signer_then(State(st): State<Shared>, body: Bytes) -> Response {
    let r = register_signer(State(st.clone()), body).await;
    epoch_change_after(&st, 2).await;
    r
}

async fn register_signatures_then(State(st): State<Shared>, body: Bytes) -> Response {
    let r = register_signatures(State(st.clone()), body).await;
    epoch_change_after(&st, 3).await;
    r
}

fn unavailable() -> Response {
    (StatusCode::SERVICE_UNAVAILABLE, Json("scripted: aggregator unavailable")).into_response()
}

async fn epoch_settings(State(st): State<Shared>) -> Response {
    let mut s = st.lock().unwrap();
    if s.consume_down() {
        return unavailable();
    }
    let mut e = s.epoch;
    if s.stale_left > 0 && e > 0 {
        // the aggregator has not noticed the epoch change yet: it answers exactly what it answered in epoch e-1
        s.stale_left -= 1;
        s.hits.stale += 1;
        e -= 1;
    }
    let current: Vec<SignerMessagePart> =
        s.registered_during(e as i64 - REG_TO_SIGNING as i64).into_iter().map(|r| r.part).collect();
    let next: Vec<SignerMessagePart> =
        s.registered_during(e as i64 + 1 - REG_TO_SIGNING as i64).into_iter().map(|r| r.part).collect();
    let (step, chain_epoch) = (s.step, s.epoch);
    s.settings_served.push((step, chain_epoch, e));
    #[allow(deprecated)]
    let msg = EpochSettingsMessage {
        epoch: Epoch(e),
        signer_registration_protocol_parameters: None,
        current_signers: current,
        next_signers: next,
        cardano_transactions_signing_config: None,
    };
    Json(msg).into_response()
}

async fn protocol_configuration(Path(key): Path<u64>, State(st): State<Shared>) -> Response {
    let mut s = st.lock().unwrap();
    if s.consume_down() {
        return unavailable();
    }
    let msg = ProtocolConfigurationMessage {
        protocol_parameters: params_for_key(s.salt, key),
        cardano_transactions_signing_config: Some(ctx_config()),
        cardano_blocks_transactions_signing_config: None,
        available_signed_entity_types: enabled_types().into_iter().map(Into::into).collect(),
    };
    Json(msg).into_response()
}

async fn register_signer(State(st): State<Shared>, body: Bytes) -> Response {
    let mut s = st.lock().unwrap();
    let seq = s.next_seq();
    let (step, epoch) = (s.step, s.epoch);
    let mut rec = RegRequest { seq, step, receipt_epoch: epoch, label_epoch: None, status: 0, note: String::new() };
    let finish = |s: &mut AggState, mut rec: RegRequest, status: StatusCode, note: &str| -> Response {
        rec.status = status.as_u16();
        rec.note = note.to_string();
        s.reg_requests.push(rec);
        (status, Json(note.to_string())).into_response()
    };
    if s.consume_down() {
        return finish(&mut s, rec, StatusCode::SERVICE_UNAVAILABLE, "scripted: aggregator unavailable");
    }
    let value: serde_json::Value = match serde_json::from_slice(&body) {
        Ok(v) => v,
        Err(e) => return finish(&mut s, rec, StatusCode::BAD_REQUEST, &format!("undecodable body: {e}")),
    };
    rec.label_epoch = value.get("epoch").and_then(|e| e.as_u64());
    if s.round_closed_left > 0 {
        s.round_closed_left -= 1;
        s.hits.round_closed += 1;
        return finish(
            &mut s,
            rec,
            StatusCode::from_u16(550).unwrap(),
            "scripted: registration round not yet opened",
        );
    }
    let part: SignerMessagePart = match serde_json::from_value(value.clone()) {
        Ok(p) => p,
        Err(e) => return finish(&mut s, rec, StatusCode::BAD_REQUEST, &format!("undecodable signer: {e}")),
    };
    // the open registration round of an aggregator in chain epoch e records for e + 1
    if rec.label_epoch != Some(epoch + REG_LABEL) {
        return finish(&mut s, rec, StatusCode::INTERNAL_SERVER_ERROR, "registration round unexpected epoch");
    }
    let signer: Signer = match part.clone().try_into() {
        Ok(x) => x,
        Err(e) => return finish(&mut s, rec, StatusCode::BAD_REQUEST, &format!("undecodable keys: {e:?}")),
    };
    let stake = s.stakes.get(&epoch).and_then(|m| m.get(&signer.party_id)).copied();
    let Some(stake) = stake else {
        return finish(&mut s, rec, StatusCode::BAD_REQUEST, "party without stake");
    };
    // key registration check (KES signature over the verification key, operational certificate)
    let sws = SignerWithStake::from_signer(signer.clone(), stake);
    if let Err(e) = SignerBuilder::new(&[sws], &params_for_key(s.salt, epoch + REG_LABEL)) {
        return finish(&mut s, rec, StatusCode::BAD_REQUEST, &format!("invalid signer registration: {e:?}"));
    }
    let from_sut = signer.party_id == s.sut_party;
    s.registrations.push(Registration {
        seq,
        step,
        receipt_epoch: epoch,
        party_id: signer.party_id.clone(),
        signer,
        part,
        from_sut,
    });
    finish(&mut s, rec, StatusCode::CREATED, "")
}

async fn register_signatures(State(st): State<Shared>, body: Bytes) -> Response {
    let mut s = st.lock().unwrap();
    let seq = s.next_seq();
    let protocol_message = s.pending_pm.take();
    let mut rec = SigRequest {
        seq,
        step: s.step,
        receipt_epoch: s.epoch,
        status: 0,
        message: serde_json::from_slice::<RegisterSignatureMessageHttp>(&body).ok(),
        protocol_message,
        note: String::new(),
        restarts_before: s.restarts,
    };
    let status = if s.consume_down() {
        rec.note = "scripted: aggregator unavailable".into();
        StatusCode::SERVICE_UNAVAILABLE
    } else if s.publish_fail_left > 0 {
        s.publish_fail_left -= 1;
        s.hits.publish_fail += 1;
        rec.note = "scripted: publish failure".into();
        StatusCode::INTERNAL_SERVER_ERROR
    } else if rec.message.is_none() {
        rec.note = "undecodable body".into();
        StatusCode::BAD_REQUEST
    } else {
        StatusCode::CREATED
    };
    rec.status = status.as_u16();
    let note = rec.note.clone();
    s.sig_requests.push(rec);
    (status, Json(note)).into_response()
}
