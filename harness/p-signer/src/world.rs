//! The system under test: the real signer (state machine, runner, certifier, single signer, epoch service, sqlite
//! stores on disk, KES material) assembled like the repository's `StateMachineTester`
//! (mithril-signer/tests/test_extensions/state_machine_tester.rs) but
//!  * against the harness-owned scripted fake aggregator (see fakeagg.rs) through the real `AggregatorHttpClient`,
//!  * with the production signature-publisher chain (delayer → retrier → http),
//!  * split into a persistent *environment* (chain, aggregator, directories) and a restartable *signer process*
//!    (everything that lives in the signer's memory; the sqlite files survive a restart),
//!  * without any process-global state (no slog-scope global logger).
use std::path::Path;
use std::sync::Arc;
use std::time::Duration;

use async_trait::async_trait;
use tokio::sync::RwLock;

use mithril_aggregator_client::AggregatorHttpClient;
use mithril_cardano_node_chain::{
    chain_importer::CardanoChainDataImporter,
    entities::ScannedBlock,
    test::double::{DumbBlockScanner, FakeChainObserver},
};
use mithril_cardano_node_internal_database::{
    signable_builder::CardanoDatabaseSignableBuilder,
    test::double::{DumbImmutableDigester, DumbImmutableFileObserver},
};
use mithril_common::{
    StdResult,
    api_version::APIVersionProvider,
    crypto_helper::{KesSigner, KesSignerStandard},
    entities::{
        BlockNumber, ChainPoint, Epoch, ProtocolMessage, SignedEntityType, SignerWithStake, SingleSignature,
        SlotNumber, SupportedEra, TimePoint,
    },
    signable_builder::{
        CardanoBlocksTransactionsSignableBuilder, CardanoStakeDistributionSignableBuilder,
        CardanoTransactionsSignableBuilder, MithrilSignableBuilderService, MithrilStakeDistributionSignableBuilder,
        SignableBuilderServiceDependencies,
    },
    test::double::Dummy,
};
use mithril_era::{EraChecker, EraMarker, EraReader, adapters::EraReaderDummyAdapter};
use mithril_protocol_config::http::HttpMithrilNetworkConfigurationProvider;
use mithril_signed_entity_lock::SignedEntityTypeLock;
use mithril_signed_entity_preloader::{CardanoTransactionsPreloader, CardanoTransactionsPreloaderActivation};
use mithril_signer::{
    Configuration, MetricsService, SignerRunner, SignerState, StateMachine,
    database::repository::{
        ProtocolInitializerRepository, SignedBeaconRepository, SignerCardanoChainDataRepository, StakePoolStore,
    },
    dependency_injection::{DependenciesBuilder, SignerDependencyContainer},
    services::{
        MithrilEpochService, MithrilSingleSigner, SignaturePublishRetryPolicy, SignaturePublisher,
        SignaturePublisherDelayer, SignaturePublisherNoop, SignaturePublisherRetrier, SignerCertifierService,
        SignerChainDataImporter, SignerSignableSeedBuilder, SignerSignedEntityConfigProvider, SignerUpkeepService,
    },
    store::MKTreeStoreSqlite,
};
use mithril_ticker::{MithrilTickerService, TickerService};

use crate::fakeagg::{AggState, FakeAggregator, Shared};

pub fn discard_logger() -> slog::Logger {
    slog::Logger::root(slog::Discard, slog::o!())
}

/// Pass-through decorator around the real HTTP publisher: hands the protocol message the signer claims to have
/// signed to the fake aggregator's request log (the HTTP message only carries its hash).
pub struct RecordingPublisher {
    inner: Arc<dyn SignaturePublisher>,
    agg: Shared,
}

#[async_trait]
impl SignaturePublisher for RecordingPublisher {
    async fn publish(
        &self,
        signed_entity_type: &SignedEntityType,
        signature: &SingleSignature,
        protocol_message: &ProtocolMessage,
    ) -> StdResult<()> {
        self.agg.lock().unwrap().pending_pm = Some(protocol_message.clone());
        self.inner.publish(signed_entity_type, signature, protocol_message).await
    }
}

/// Everything that survives a signer restart.
#[allow(dead_code)]
pub struct Env {
    pub party_id: String,
    pub config: Configuration,
    pub chain: Arc<FakeChainObserver>,
    pub immutables: Arc<DumbImmutableFileObserver>,
    pub blocks: Arc<DumbBlockScanner>,
    pub agg: FakeAggregator,
    pub immutable_number: u64,
    pub block_number: u64,
}

/// The signer "process".
pub struct SignerProc {
    pub state_machine: Arc<StateMachine>,
}

pub fn blocks_to_scan(range: std::ops::RangeInclusive<u64>) -> Vec<ScannedBlock> {
    range
        .map(|n| {
            ScannedBlock::new(format!("block_hash-{n}"), BlockNumber(n), SlotNumber(n), vec![format!("tx_hash-{n}-1")])
        })
        .collect()
}

impl Env {
    /// must be called inside the case's tokio runtime
    pub async fn new(
        work_folder: &Path,
        sut: &SignerWithStake,
        initial_epoch: u64,
        salt: u8,
        kes_dir: &Path,
        store_retention_limit: Option<usize>,
    ) -> anyhow::Result<Env> {
        let party_id = sut.party_id.clone();
        let initial_block = 100u64;
        let initial_time_point = TimePoint {
            epoch: Epoch(initial_epoch),
            immutable_file_number: 1,
            chain_point: ChainPoint {
                slot_number: SlotNumber(initial_block),
                block_number: BlockNumber(initial_block),
                block_hash: format!("block_hash-{initial_block}"),
            },
        };
        let mut config = Configuration::new_sample(&party_id);
        config.db_directory = work_folder.join("db");
        config.data_stores_directory = work_folder.join("stores");
        config.store_retention_limit = store_retention_limit;
        config.kes_secret_key_path = Some(kes_dir.join("kes.sk"));
        config.operational_certificate_path = Some(kes_dir.join("opcert.cert"));
        // production publisher chain, without wall-clock waits
        config.signature_publisher_config.retry_attempts = 2;
        config.signature_publisher_config.retry_delay_ms = 0;
        config.signature_publisher_config.delayer_delay_ms = 0;

        let immutables = Arc::new(DumbImmutableFileObserver::new());
        immutables.shall_return(Some(1)).await;
        let chain = Arc::new(FakeChainObserver::new(Some(initial_time_point)));
        let blocks = Arc::new(DumbBlockScanner::new());
        blocks.add_forwards(vec![blocks_to_scan(1..=initial_block)]);
        let agg = FakeAggregator::spawn(AggState::new(salt, party_id.clone(), initial_epoch))?;
        Ok(Env { party_id, config, chain, immutables, blocks, agg, immutable_number: 1, block_number: initial_block })
    }

    /// Build a fresh signer process on the (possibly already populated) stores of this environment.
    pub async fn start_signer(&self) -> anyhow::Result<SignerProc> {
        let config = self.config.clone();
        let logger = discard_logger();
        let dependencies_builder = DependenciesBuilder::new(&config, logger.clone());
        let sqlite_connection = Arc::new(dependencies_builder.build_main_sqlite_connection("signer.db").await?);
        let sqlite_connection_cardano_transaction_pool =
            dependencies_builder.build_cardano_tx_sqlite_connection_pool("cardano_tx.db", 1).await.map(Arc::new)?;

        let ticker_service = Arc::new(MithrilTickerService::new(self.chain.clone(), self.immutables.clone()));
        let digester = Arc::new(DumbImmutableDigester::default().with_digest("DIGEST"));
        let protocol_initializer_store = Arc::new(ProtocolInitializerRepository::new(
            sqlite_connection.clone(),
            config.store_retention_limit.map(|limit| limit as u64),
        ));
        let stake_store = Arc::new(StakePoolStore::new(
            sqlite_connection.clone(),
            config.store_retention_limit.map(|limit| limit as u64),
        ));
        let era_reader_adapter = Arc::new(EraReaderDummyAdapter::from_markers(vec![EraMarker {
            name: SupportedEra::dummy().to_string(),
            epoch: Some(Epoch(0)),
        }]));
        let era_reader = Arc::new(EraReader::new(era_reader_adapter.clone()));
        let era_epoch_token = era_reader
            .read_era_epoch_token(ticker_service.get_current_epoch().await?)
            .await
            .map_err(|e| anyhow::anyhow!("era: {e:?}"))?;
        let era_checker = Arc::new(EraChecker::new(
            era_epoch_token.get_current_supported_era()?,
            era_epoch_token.get_current_epoch(),
        ));
        let api_version_provider = Arc::new(APIVersionProvider::new(era_checker.clone()));

        let mithril_stake_distribution_signable_builder = Arc::new(MithrilStakeDistributionSignableBuilder::default());
        let chain_data_store =
            Arc::new(SignerCardanoChainDataRepository::new(sqlite_connection_cardano_transaction_pool.clone()));
        let transactions_importer = Arc::new(SignerChainDataImporter::new(Arc::new(CardanoChainDataImporter::new(
            self.blocks.clone(),
            chain_data_store.clone(),
            logger.clone(),
        ))));
        let block_range_root_retriever = chain_data_store.clone();
        let cardano_transactions_builder = Arc::new(CardanoTransactionsSignableBuilder::<MKTreeStoreSqlite>::new(
            transactions_importer.clone(),
            block_range_root_retriever.clone(),
        ));
        let cardano_blocks_transactions_builder =
            Arc::new(CardanoBlocksTransactionsSignableBuilder::<MKTreeStoreSqlite>::new(
                transactions_importer.clone(),
                block_range_root_retriever,
            ));
        let cardano_stake_distribution_builder =
            Arc::new(CardanoStakeDistributionSignableBuilder::new(stake_store.clone()));
        let cardano_database_signable_builder =
            Arc::new(CardanoDatabaseSignableBuilder::new(digester.clone(), Path::new(""), logger.clone()));
        let epoch_service = Arc::new(RwLock::new(MithrilEpochService::new(
            era_checker.clone(),
            stake_store.clone(),
            protocol_initializer_store.clone(),
            logger.clone(),
        )));
        let single_signer = Arc::new(MithrilSingleSigner::new(
            config.party_id.to_owned().unwrap_or_default(),
            epoch_service.clone(),
            logger.clone(),
        ));
        let signable_seed_builder_service =
            Arc::new(SignerSignableSeedBuilder::new(epoch_service.clone(), protocol_initializer_store.clone()));
        let signable_builders_dependencies = SignableBuilderServiceDependencies::new(
            mithril_stake_distribution_signable_builder,
            cardano_transactions_builder,
            cardano_blocks_transactions_builder,
            cardano_stake_distribution_builder,
            cardano_database_signable_builder,
        );
        let signable_builder_service = Arc::new(MithrilSignableBuilderService::new(
            signable_seed_builder_service,
            signable_builders_dependencies,
            logger.clone(),
        ));
        let metrics_service = Arc::new(MetricsService::new(logger.clone())?);
        let signed_entity_type_lock = Arc::new(SignedEntityTypeLock::default());
        let cardano_transactions_preloader = Arc::new(CardanoTransactionsPreloader::new(
            signed_entity_type_lock.clone(),
            transactions_importer.clone(),
            BlockNumber(0),
            self.chain.clone(),
            logger.clone(),
            Arc::new(CardanoTransactionsPreloaderActivation::new(true)),
        ));
        let signed_beacon_repository = Arc::new(SignedBeaconRepository::new(
            sqlite_connection.clone(),
            config.store_retention_limit.map(|limit| limit as u64),
        ));
        // production wiring: the three stores are pruning tasks of the upkeep service
        let upkeep_service = Arc::new(SignerUpkeepService::new(
            sqlite_connection.clone(),
            sqlite_connection_cardano_transaction_pool,
            signed_entity_type_lock.clone(),
            vec![signed_beacon_repository.clone(), stake_store.clone(), protocol_initializer_store.clone()],
            logger.clone(),
        ));
        let aggregator_client = AggregatorHttpClient::builder(self.agg.url.clone())
            .with_api_version_provider(api_version_provider.clone())
            .with_timeout(Duration::from_secs(300))
            .with_logger(logger.clone())
            .build()
            .map(Arc::new)?;
        let network_configuration_service =
            Arc::new(HttpMithrilNetworkConfigurationProvider::new(aggregator_client.clone(), logger.clone()));

        // production publisher chain (dependency_injection/builder.rs): delayer(retrier(noop), retrier(http))
        let recording: Arc<dyn SignaturePublisher> =
            Arc::new(RecordingPublisher { inner: aggregator_client.clone(), agg: self.agg.state.clone() });
        let first_publisher =
            SignaturePublisherRetrier::new(Arc::new(SignaturePublisherNoop), SignaturePublishRetryPolicy::never());
        let second_publisher = SignaturePublisherRetrier::new(
            recording,
            SignaturePublishRetryPolicy {
                attempts: config.signature_publisher_config.retry_attempts,
                delay_between_attempts: Duration::from_millis(config.signature_publisher_config.retry_delay_ms),
            },
        );
        let signature_publisher: Arc<dyn SignaturePublisher> = Arc::new(SignaturePublisherDelayer::new(
            Arc::new(first_publisher),
            Arc::new(second_publisher),
            Duration::from_millis(config.signature_publisher_config.delayer_delay_ms),
            logger.clone(),
        ));

        let certifier = Arc::new(SignerCertifierService::new(
            signed_beacon_repository.clone(),
            Arc::new(SignerSignedEntityConfigProvider::new(epoch_service.clone())),
            signed_entity_type_lock.clone(),
            single_signer.clone(),
            signature_publisher,
            logger.clone(),
        ));
        let kes_signer = Some(Arc::new(KesSignerStandard::new(
            config.kes_secret_key_path.clone().unwrap(),
            config.operational_certificate_path.clone().unwrap(),
        )) as Arc<dyn KesSigner>);

        let services = SignerDependencyContainer {
            signers_registration_retriever: aggregator_client.clone(),
            ticker_service: ticker_service.clone(),
            chain_observer: self.chain.clone(),
            digester: digester.clone(),
            protocol_initializer_store: protocol_initializer_store.clone(),
            single_signer: single_signer.clone(),
            stake_store: stake_store.clone(),
            era_checker: era_checker.clone(),
            era_reader,
            api_version_provider,
            signable_builder_service,
            metrics_service: metrics_service.clone(),
            signed_entity_type_lock: Arc::new(SignedEntityTypeLock::default()),
            cardano_transactions_preloader,
            upkeep_service,
            epoch_service,
            certifier,
            signer_registration_publisher: aggregator_client.clone(),
            kes_signer,
            network_configuration_service,
        };
        let runner = Box::new(SignerRunner::new(config, services, logger.clone()));
        let state_machine =
            StateMachine::new(SignerState::Init, runner, Duration::from_secs(5), metrics_service, logger.clone());
        Ok(SignerProc { state_machine: Arc::new(state_machine) })
    }

    pub async fn set_stakes(&self, signers: Vec<SignerWithStake>) {
        self.chain.set_signers(signers).await;
    }

    pub async fn epoch_up(&mut self) -> u64 {
        let e = self.chain.next_epoch().await.map(|e| e.0).unwrap_or(0);
        self.agg.state.lock().unwrap().epoch = e;
        e
    }

    pub async fn chain_up(&mut self, immutables: u64, blocks: u64) {
        if immutables > 0 {
            self.immutable_number += immutables;
            self.immutables.shall_return(Some(self.immutable_number)).await;
        }
        if blocks > 0 {
            let from = self.block_number + 1;
            self.block_number += blocks;
            self.chain.increase_slot_number(blocks).await;
            self.chain.increase_block_number(blocks).await;
            self.blocks.add_forwards(vec![blocks_to_scan(from..=self.block_number)]);
        }
    }
}
